#!/usr/bin/env python3
"""Assembles MANIFEST.json from meta/Cxx.json (one file per claimed property)."""
import json, os, glob
root = os.path.dirname(os.path.abspath(__file__))
props = [json.loads(l) for l in open(os.path.join(root, "properties.jsonl"))]
checks, na, hooks = [], [], []
for p in props:
    pid = p["id"]
    mp = os.path.join(root, "meta", pid + ".json")
    if not os.path.exists(mp):
        na.append({"property_id": pid, "reason": "no check registered yet in this round (machinery under construction; see DESIGN.md §6 %s)" % pid})
        continue
    m = json.load(open(mp))
    if m.get("not_applicable"):
        na.append({"property_id": pid, "reason": m["not_applicable"]})
        continue
    checks.append({
        "property_id": pid,
        "quick_cmd": "./check %s quick" % pid,
        "thorough_cmd": "./check %s thorough" % pid,
        "evidence_file": "/verif/evidence/%s.json" % pid,
        "replay_cmd_template": "./check %s --replay {path}" % pid,
        "engine": "lean4-proof+correspondence",
        "level_claimed": {"category": "proof", "text": m["level_text"], "design_ref": m.get("design_ref", "DESIGN.md §6 " + pid)},
        "level_note": m["level_note"],
        "technique": m["technique"],
    })
hk = os.path.join(root, "meta", "hooks.json")
hooks = json.load(open(hk)) if os.path.exists(hk) else {"source_commits": []}
man = {
    "version": 1,
    "setup_cmd": "./setup.sh",
    "hooks": {
        "guard": "verif",
        "enable": "go build -tags verif (the harness module /verif/go replaces github.com/DOSNetwork/core => /repo); hooks are add-only files */zz_verif*.go",
        "baseline_off_cmd": "cd /repo && go test -mod=mod -json -vet=off -count=1 -timeout 25m ./...",
        "source_commits": hooks.get("source_commits", []),
        "add_only": True,
    },
    "engines": [{"name": "lean4-proof+correspondence", "path": "/verif/check",
                 "serves_properties": [c["property_id"] for c in checks],
                 "kind_free_text": "Lean 4 kernel-checked theorems over executable models (lean/DosModel), facts regenerated from /repo by go/cmd/extract, and a Go correspondence harness (go/cmd/corr, -tags verif) that runs the real code and the Lean driver on the same case lines, with direct property oracles and a widened search on any broken obligation or correspondence"}],
    "checks": checks,
    "not_applicable": na,
    "notes": "See DESIGN.md. KNOWN_FINDINGS.txt lists recorded genuine defects (known:) and repaired ones (fixed:).",
}
json.dump(man, open(os.path.join(root, "MANIFEST.json"), "w"), indent=1)
# Review F #6: a committed evidence file must come from a run that built every props module meta lists for the quick tier.
for c in checks:
    pid = c["property_id"]; m = json.load(open(os.path.join(root, "meta", pid + ".json")))
    ep = os.path.join(root, "evidence", pid + ".json")
    if not os.path.exists(ep):
        print("STALE-EVIDENCE %s: no evidence file" % pid); continue
    cmd = str(json.load(open(ep)).get("coverage", {}).get("checker_cmd", ""))
    missing = [x for x in m.get("props_modules", ["DosModel.Props." + pid]) if (x + " ") not in (cmd + " ") and not cmd.endswith(x)]
    if missing:
        print("STALE-EVIDENCE %s: evidence checker_cmd lacks %s (re-run ./check %s quick and commit the evidence)" % (pid, ", ".join(missing), pid))
print("claimed", len(checks), "not_applicable", len(na))

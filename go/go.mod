module verifharness

go 1.13

require (
	github.com/DOSNetwork/core v0.0.0
	github.com/dedis/kyber v0.0.0-20181211160045-59837fd0c24b
	github.com/ethereum/go-ethereum v1.10.9
	github.com/golang/protobuf v1.4.3
)

replace github.com/DOSNetwork/core => /repo

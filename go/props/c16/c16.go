// Package c16: only authentic, unmodified messages are delivered to p2p subscribers.
//
//	mitm <msgs> <ops>   two REAL nodes on loopback, A sends msgs (t:size:seed,…) to B through a
//	                    byte-level TCP proxy that tampers with the post-handshake A→B frames:
//	                    F<i>:<bit> flip a bit of frame i's body, T<i>:<n> truncate it (re-framed),
//	                    H<i>:<bit> flip a header bit, X<i>:<n> cut the stream n bytes into frame i,
//	                    D<i>:<bit> duplicate frame i with a flipped bit, I<i>:<len>:<seed> inject a
//	                    random frame before frame i, R<i> verbatim replay (observation), M<i> frame i reflected
//	                    to A, V<i> B's reply to message i also sent back to B, A<i>:<bit> B's reply to message i
//	                    (a B→A frame) with a bit flipped
//	own <items>         the harness's own endpoint (knows the session key) sends to a real node:
//	                    G good, S<mode> wrong inner signature, N no Anything, U unknown type,
//	                    J junk plaintext, E empty plaintext, W raw frame, K other key, M malformed
//	                    value, P reply flag
//	race <n>            n honest connections to a real node, one message each, each while another
//	                    inbound connection fails its handshake
//
// Observed: what arrives on B's SubscribeMsg channels (one per message type), byte for byte.
package c16

import (
	"bytes"
	"context"
	"crypto/aes"
	"crypto/cipher"
	"encoding/binary"
	"fmt"
	"io"
	"net"
	"os"
	osexec "os/exec"
	"runtime/debug"
	"strconv"
	"strings"
	"sync"
	"syscall"
	"time"

	"github.com/DOSNetwork/core/log"
	"github.com/DOSNetwork/core/p2p"
	vss "github.com/DOSNetwork/core/share/vss/pedersen"
	"github.com/golang/protobuf/proto"
	"github.com/golang/protobuf/ptypes/any"
	"google.golang.org/protobuf/encoding/protowire"

	"verifharness/internal/h"
	"verifharness/props/c17/fakepeer"
)

func init() {
	h.Register(&h.Prop{
		ID:   "C16",
		Rule: "sub: a real node with a scripted history of SubscribeMsg / UnSubscribeMsg calls (by value, by pointer, several types per call, re-subscription) receives messages of EVERY registered protobuf type of the repository (every ordered pair of types, the same-name types of different packages included) from a key-holding endpoint; hist: two real nodes through a recording proxy over SUCCESSIVE connections (cuts, restarts of either node), every recorded frame of every earlier connection injected into later ones in both directions and reflected; mitm: real node → byte-level proxy → real node, 1..12 messages of 4 types and sizes 1 B..~1 MiB, every catalogue entry (bit flip at any body/header position, truncation, cut, duplicate-and-alter, injection at any position) plus verbatim replay; own: a key-holding endpoint sends well-encrypted packages with wrong inner signature (4 ways), no Anything, unknown type, junk, malformed value, other key, raw; non-trivial = at least one tampering op / bad item; distinct = distinct case line",
		Gen:  gen,
		Exec: exec,
	})
}

const sentinelSeed = 424242

var typeNames = []string{"p2p.Ping", "p2p.Pong", "vss.Signature", "vss.PublicKey"}

func syn(n, seed int) []byte {
	b := make([]byte, n)
	x := uint32(seed)*2654435761 + 12345
	for i := range b {
		x = x*1664525 + 1013904223
		b[i] = byte(x >> 24)
	}
	return b
}

func mkMsg(i, t, size, seed int) proto.Message {
	switch t {
	case 0:
		return &p2p.Ping{Count: uint64(i)}
	case 1:
		return &p2p.Pong{Count: uint64(i)}
	case 2:
		return &vss.Signature{Index: uint32(i), Content: syn(size, seed)}
	default:
		return &vss.PublicKey{Binary: syn(size, seed), SenderId: []byte(strconv.Itoa(i))}
	}
}

func idxOf(m proto.Message) (int, int) {
	switch x := m.(type) {
	case *p2p.Ping:
		return 0, int(x.Count)
	case *p2p.Pong:
		return 1, int(x.Count)
	case *vss.Signature:
		return 2, int(x.Index)
	case *vss.PublicKey:
		n, _ := strconv.Atoi(string(x.SenderId))
		return 3, n
	}
	return -1, -1
}

func exec(line string) (res h.Result) {
	w := strings.Fields(line)
	if os.Getenv("VERIF_C16_CHILD") == "" {
		return execChild(line, w)
	}
	os.MkdirAll("vault", 0o755)
	log.Init([]byte("c16"))
	defer func() {
		if e := recover(); e != nil {
			res.Impl = "panic"
			res.Oracle = "harness-panic: " + h.OneLine(fmt.Sprint(e)+" "+string(debug.Stack()))
		}
	}()
	switch w[0] {
	case "mitm":
		return execMitm(w[1], w[2])
	case "own":
		return execOwn(w[1])
	case "race":
		return execRace(h.Atoi(w[1]))
	case "hist":
		res = execHist(w[1])
		res.Class, res.Nontrivial = histClass16(w[1])
		return res
	case "sub":
		res = execSub(w[1], w[2])
		res.Class, res.Nontrivial = subClass(w[2])
		return res
	case "reg":
		return execReg()
	case "gcm":
		return execGcm(w[1])
	case "hs":
		return execHs(w[1], w[2])
	case "hsmitm":
		return execHsMitm(h.Atoi(w[1]))
	}
	panic("bad case line")
}

func classOf(w []string) (string, bool) {
	if w[0] == "race" {
		return "race", true
	}
	if w[0] == "hist" {
		return histClass16(w[1])
	}
	if w[0] == "sub" {
		return subClass(w[2])
	}
	if w[0] == "reg" {
		return "reg", true
	}
	if w[0] == "hs" {
		return "hs-" + w[2], true
	}
	if w[0] == "hsmitm" {
		return "hsmitm", true
	}
	if w[0] == "gcm" {
		return "gcm-" + strings.ReplaceAll(w[1], ",", ""), true
	}
	if w[0] == "own" {
		bad := 0
		for _, it := range split(w[1]) {
			if it[0] != 'G' && it[0] != 'E' && it[0] != 'P' && !(it[0] == 'Q' && len(strings.Split(it, ":")) > 1 && (strings.Split(it, ":")[1] == "5" || strings.Split(it, ":")[1] == "3")) {
				bad++
			}
		}
		return fmt.Sprintf("own-%dbad", min(bad, 3)), bad > 0
	}
	ops := split(w[2])
	kinds := map[byte]bool{}
	for _, o := range ops {
		kinds[o[0]] = true
	}
	var ks []string
	for _, k := range "FTHXDIRMVA" {
		if kinds[byte(k)] {
			ks = append(ks, string(k))
		}
	}
	big := ""
	for _, m := range split(w[1]) {
		p := strings.Split(m, ":")
		if h.Atoi(p[1]) >= 1<<16 {
			big = "-big"
		}
	}
	if len(ks) == 0 {
		return "mitm-honest" + big, false
	}
	return "mitm-" + strings.Join(ks, "") + big, true
}

func min(a, b int) int {
	if a < b {
		return a
	}
	return b
}

// execChild runs the case in a child process. A child that does not come back within 120 s is asked for
// its goroutine stacks (kept in a file) and reported as a crash of the receiver — like every other failure
// only when it shows again on the second run (seen about once in 1500 hist cases on a heavily loaded
// machine, never reproduced on replay).
func execChild(line string, w []string) (res h.Result) {
	res = execChildOnce(line, w)
	// every verdict of these cases involves waiting for something on real sockets: before a failure is
	// reported the case is run once more, alone; only a failure that shows again is reported (a deterministic
	// one always does). The replay of the known finding is exempt (it is expected).
	if res.Oracle != "" && !strings.HasPrefix(res.Oracle, "gcm-nonce-reuse-forgery") {
		fmt.Fprintln(os.Stderr, "c16: running the case once more before reporting:", line, "|", res.Oracle)
		time.Sleep(300 * time.Millisecond)
		res = execChildOnce(line, w)
	}
	return
}

func execChildOnce(line string, w []string) (res h.Result) {
	cmd := osexec.Command(os.Args[0], "exec", "C16")
	cmd.Env = append(os.Environ(), "VERIF_C16_CHILD=1")
	cmd.Stdin = strings.NewReader(line + "\n")
	var out, errb bytes.Buffer
	cmd.Stdout, cmd.Stderr = &out, &errb
	if err := cmd.Start(); err != nil {
		panic(err)
	}
	done := make(chan error, 1)
	go func() { done <- cmd.Wait() }()
	var err error
	select {
	case err = <-done:
	case <-time.After(120 * time.Second):
		// ask the runtime for every goroutine's stack before killing it: a hang is either the node's or the harness's
		cmd.Process.Signal(syscall.SIGQUIT)
		select {
		case <-done:
		case <-time.After(5 * time.Second):
			cmd.Process.Kill()
		}
		if f, e := os.CreateTemp("", "c16-hang-*.txt"); e == nil {
			f.WriteString(line + "\n" + errb.String())
			f.Close()
			err = fmt.Errorf("timeout (goroutine dump in %s)", f.Name())
		} else {
			err = fmt.Errorf("timeout")
		}
		errb.Reset()
	}
	res.Class, res.Nontrivial = classOf(w)
	if err != nil {
		msg := errb.String()
		if i := strings.Index(msg, "panic:"); i >= 0 {
			msg = msg[i:]
		} else if i := strings.Index(msg, "fatal error:"); i >= 0 {
			msg = msg[i:]
		}
		if len(msg) > 300 {
			msg = msg[:300]
		}
		res.Impl = "crash"
		res.Oracle = "receiver-crashed: " + h.OneLine(err.Error()+" "+msg)
		return
	}
	lines := strings.Split(strings.TrimRight(out.String(), "\n"), "\n")
	parts := strings.SplitN(lines[len(lines)-1], "\t", 2)
	res.Impl = parts[0]
	if len(parts) > 1 {
		res.Oracle = parts[1]
	}
	return
}

// boundedHandshake: fakepeer.Handshake reads the node's ID frame without a deadline; give the whole
// handshake 10 s so that no harness path can wait for ever
func boundedHandshake(c net.Conn, id []byte) (*fakepeer.Session, error) {
	c.SetDeadline(time.Now().Add(10 * time.Second))
	s, err := fakepeer.Handshake(c, id)
	c.SetDeadline(time.Time{})
	return s, err
}

func split(s string) []string {
	if s == "-" || s == "" {
		return nil
	}
	return strings.Split(s, ",")
}

func freePort() string {
	l, err := net.Listen("tcp", "127.0.0.1:0")
	if err != nil {
		panic(err)
	}
	defer l.Close()
	return strconv.Itoa(l.Addr().(*net.TCPAddr).Port)
}

func startNode(id string, lookup func([]byte) string) (p2p.P2PInterface, string) {
	for try := 0; ; try++ {
		port := freePort()
		n, err := p2p.CreateP2PNetwork([]byte(id), "127.0.0.1", port, p2p.NoDiscover)
		if err != nil {
			panic(err)
		}
		p2p.VerifSetLookup(n, lookup)
		errc := make(chan error, 1)
		go func() { errc <- n.Listen() }()
		ready := false
		for i := 0; i < 400 && !ready; i++ {
			select {
			case <-errc:
				i = 1000
			default:
				if c, err := net.DialTimeout("tcp", "127.0.0.1:"+port, time.Second); err == nil {
					c.Close()
					ready = true
				} else {
					time.Sleep(5 * time.Millisecond)
				}
			}
		}
		if ready {
			return n, "127.0.0.1:" + port
		}
		n.Leave()
		if try > 5 {
			panic("cannot start a node")
		}
	}
}

// ---- the receiving node and what its subscribers see

type delivery struct {
	t, idx int
	raw    []byte
	sender string
	nonce  uint64 // RequestNonce the message was delivered with
}

type receiver struct {
	node    p2p.P2PInterface
	addr    string
	replyTo map[int]bool // message indices this node answers with Reply (reflection of replies)
	// replyAll: answer every message, once per index (connection histories)
	replyAll bool
	replied  map[int]bool
	mu       sync.Mutex
	got      []delivery
	tick     chan struct{}
	probe    chan struct{}
	pOnce    sync.Once
}

const probeMark = 1 << 40

func startReceiver() *receiver {
	return startReceiverAs("B", func([]byte) string { return "" }, nil)
}

func startReceiverAs(id string, lookup func([]byte) string, replyTo map[int]bool) *receiver {
	r := &receiver{tick: make(chan struct{}, 1), probe: make(chan struct{}), replyTo: replyTo}
	r.node, r.addr = startNode(id, lookup)
	protos := []interface{}{p2p.Ping{}, p2p.Pong{}, vss.Signature{}, vss.PublicKey{}}
	for t, m := range protos {
		ch, err := r.node.SubscribeMsg(256, m)
		if err != nil {
			panic(err)
		}
		go func(t int, ch chan p2p.P2PMessage) {
			for m := range ch {
				if pg, ok := m.Msg.Message.(*p2p.Ping); ok && pg.Count == probeMark {
					r.pOnce.Do(func() { close(r.probe) })
					continue
				}
				tt, idx := idxOf(m.Msg.Message)
				answer := r.replyTo[idx]
				if r.replyAll {
					r.mu.Lock()
					if r.replied == nil {
						r.replied = map[int]bool{}
					}
					if !r.replied[idx] {
						r.replied[idx] = true
						answer = true
					}
					r.mu.Unlock()
				}
				if answer {
					go r.node.Reply(context.Background(), m.Sender, m.RequestNonce, &p2p.Pong{Count: uint64(idx)})
				}
				raw, _ := proto.Marshal(m.Msg.Message)
				r.mu.Lock()
				if tt != t {
					idx = -1000 - tt // delivered to the wrong subscriber
				}
				r.got = append(r.got, delivery{t: t, idx: idx, raw: raw, sender: string(m.Sender), nonce: m.RequestNonce})
				r.mu.Unlock()
				select {
				case r.tick <- struct{}{}:
				default:
				}
			}
		}(t, ch)
	}
	return r
}

func (r *receiver) has(t, idx int) bool {
	r.mu.Lock()
	defer r.mu.Unlock()
	for _, d := range r.got {
		if d.t == t && d.idx == idx {
			return true
		}
	}
	return false
}

// waitFor waits for delivery (t, idx). certain: it must come (long timeout); otherwise wait until
// nothing has arrived for a while.
func (r *receiver) waitFor(t, idx int, certain bool) bool {
	deadline := time.Now().Add(15 * time.Second)
	quiet := 800 * time.Millisecond
	if !certain {
		deadline = time.Now().Add(6 * time.Second)
	}
	for {
		if r.has(t, idx) {
			return true
		}
		if time.Now().After(deadline) {
			return false
		}
		if certain {
			select {
			case <-r.tick:
			case <-time.After(50 * time.Millisecond):
			}
		} else {
			select {
			case <-r.tick:
			case <-time.After(quiet):
				return r.has(t, idx)
			}
		}
	}
}

// alive: a fresh, honest connection still gets a message through. (Up to three attempts: the node
// gives an inbound handshake 2 s, which a loaded machine can exceed; a dead node fails all three.)
func (r *receiver) alive() bool {
	for try := 0; try < 3; try++ {
		if r.aliveOnce() {
			return true
		}
	}
	return false
}

func (r *receiver) aliveOnce() bool {
	c, err := net.DialTimeout("tcp", r.addr, 3*time.Second)
	if err != nil {
		return false
	}
	defer c.Close()
	s, err := boundedHandshake(c, []byte("prober"))
	if err != nil {
		return false
	}
	if err := s.Send(&p2p.Ping{Count: probeMark}, 0, false, 0); err != nil {
		return false
	}
	select {
	case <-r.probe:
		return true
	case <-time.After(6 * time.Second):
		return false
	}
}

// reportOpts: what else the oracle knows about the case. dupOK: messages a verbatim copy of whose frame
// was put on the wire again (the recorded observation: delivered again); every other message is
// delivered at most once. nonceIsIdx: the sender used the message's index as its request nonce;
// nonceConsecutive: the sender is a real node on ONE connection, message i carries nonce base+i.
type reportOpts struct {
	dupOK            map[int]bool
	nonceAlso        map[int]map[uint64]bool // other nonces the sender itself sent message idx again with
	nonceIsIdx       bool
	nonceConsecutive bool
}

func (r *receiver) report(nmsgs int, sent []proto.Message, senderID string, sentinelBack, alive bool, opt reportOpts) (impl, oracle string) {
	r.mu.Lock()
	defer r.mu.Unlock()
	per := make([][]string, 4)
	count := map[[2]int]int{}
	var base uint64
	haveBase := false
	for _, d := range r.got {
		sameBytes := false
		if d.idx >= 0 && d.idx < len(sent) && sent[d.idx] != nil {
			wb, _ := proto.Marshal(sent[d.idx])
			sameBytes = bytes.Equal(wb, d.raw)
		}
		// nonce and multiplicity are judged for deliveries that ARE a sent message (anything else is reported below)
		if sameBytes && oracle == "" {
			if opt.nonceIsIdx && d.nonce != uint64(d.idx) && !opt.nonceAlso[d.idx][d.nonce] {
				oracle = fmt.Sprintf("nonce-altered: message %d was sent with request nonce %d and delivered with %d", d.idx, d.idx, d.nonce)
			}
			if opt.nonceConsecutive {
				if !haveBase {
					base, haveBase = d.nonce-uint64(d.idx), true
				} else if d.nonce-uint64(d.idx) != base {
					oracle = fmt.Sprintf("nonce-altered: message %d was delivered with request nonce %d; the sender's nonces on this connection are %d+i", d.idx, d.nonce, base)
				}
			}
			if count[[2]int{d.t, d.idx}] >= 1 && !opt.dupOK[d.idx] && oracle == "" {
				oracle = fmt.Sprintf("delivered-twice: message %d was sent once, no copy of its frame was put on the wire, and subscriber %s received it again", d.idx, typeNames[d.t])
			}
		}
		per[d.t] = append(per[d.t], strconv.Itoa(d.idx))
		count[[2]int{d.t, d.idx}]++
		// the property itself: what is delivered is byte for byte a message that was sent, to the right subscriber
		if d.idx < 0 || d.idx >= len(sent) || sent[d.idx] == nil {
			if oracle == "" {
				oracle = fmt.Sprintf("not-sent-delivered: subscriber %s received a message that was never sent (index %d)", typeNames[d.t], d.idx)
			}
			continue
		}
		want, _ := proto.Marshal(sent[d.idx])
		st, _ := idxOf(sent[d.idx])
		if sent[d.idx] == nil || !bytes.Equal(want, d.raw) || st != d.t {
			if oracle == "" {
				oracle = fmt.Sprintf("altered-delivered: subscriber %s received message %d with different bytes / type", typeNames[d.t], d.idx)
			}
		}
		if d.sender != senderID && oracle == "" {
			oracle = fmt.Sprintf("sender-wrong: message %d delivered with sender %q", d.idx, d.sender)
		}
	}
	var parts []string
	for t := 0; t < 4; t++ {
		s := "-"
		if len(per[t]) > 0 {
			s = strings.Join(per[t], ",")
		}
		parts = append(parts, fmt.Sprintf("t%d=%s", t, s))
	}
	conn := "dead"
	if sentinelBack {
		conn = "live"
	}
	al := "no"
	if alive {
		al = "yes"
	}
	impl = fmt.Sprintf("%s conn=%s alive=%s n=%d", strings.Join(parts, " "), conn, al, nmsgs)
	if !alive && oracle == "" {
		oracle = "receiver-dead: a fresh honest connection got no message through"
	}
	return
}

// ---- mitm

type tamper struct {
	flip   []int // body bit flips
	trunc  int   // >0: truncate body
	hdr    int   // >=0: header bit flip
	cut    int   // >=0: forward that many bytes then close
	after  []int // what follows the frame, in op order: -1 = verbatim replay, ≥0 = duplicate with that bit flipped
	inject [][2]int
}

type proxy struct {
	ln      net.Listener
	target  string
	tab     map[int]*tamper
	seen    []chan struct{}
	once    []sync.Once
	mu      sync.Mutex
	conns   []net.Conn
	cutDone chan struct{}
	wa, wb  sync.Mutex // writes towards A / towards B
	reflect chan int   // indices whose reply (B→A) is also to be sent back to B
	vdone   map[int]chan struct{}
	mirror  []int       // A→B frames sent back to A (reflection) once the last frame has gone through
	alterBA map[int]int // reply to message i (B→A): bit to flip before it reaches A
}

func (p *proxy) tm(i int) *tamper {
	if t, ok := p.tab[i]; ok {
		return t
	}
	return &tamper{hdr: -1, cut: -1}
}

func frame(b []byte) []byte {
	var hd [4]byte
	binary.BigEndian.PutUint32(hd[:], uint32(len(b)))
	return append(hd[:], b...)
}

func (p *proxy) run() {
	for {
		a, err := p.ln.Accept()
		if err != nil {
			return
		}
		b, err := net.Dial("tcp", p.target)
		if err != nil {
			a.Close()
			continue
		}
		p.mu.Lock()
		first := len(p.conns) == 0
		p.conns = append(p.conns, a, b)
		p.mu.Unlock()
		if !first { // only the first connection is scripted
			go func() { io.Copy(a, b); a.Close() }()
			go func() { io.Copy(b, a); b.Close() }()
			continue
		}
		go p.pumpBack(a, b)
		go p.pump(a, b)
	}
}

// pumpBack forwards B→A frame by frame; a reply whose index is queued in p.reflect is also
// sent straight back to B (reflection of a server→client frame).
func (p *proxy) pumpBack(a, b net.Conn) {
	defer a.Close()
	first := true
	for {
		var hd [4]byte
		if _, err := io.ReadFull(b, hd[:]); err != nil {
			return
		}
		body := make([]byte, binary.BigEndian.Uint32(hd[:]))
		if _, err := io.ReadFull(b, body); err != nil {
			return
		}
		if first {
			first = false
			p.wa.Lock()
			a.Write(frame(body))
			p.wa.Unlock()
			continue
		}
		select {
		case i := <-p.reflect:
			toA := body
			if bit, ok := p.alterBA[i]; ok { // a B→A frame altered in transit
				toA = append([]byte(nil), body...)
				pos := bit % (len(toA) * 8)
				toA[pos/8] ^= 1 << uint(pos%8)
			}
			p.wa.Lock()
			a.Write(frame(toA))
			p.wa.Unlock()
			if _, ok := p.alterBA[i]; !ok {
				p.wb.Lock()
				b.Write(frame(body))
				p.wb.Unlock()
			}
			close(p.vdone[i])
		default:
			p.wa.Lock()
			a.Write(frame(body))
			p.wa.Unlock()
		}
	}
}

func (p *proxy) pump(a, b net.Conn) {
	defer b.Close()
	defer a.Close()
	idx := -1 // -1 = the handshake frame
	var stored [][]byte
	for {
		var hd [4]byte
		if _, err := io.ReadFull(a, hd[:]); err != nil {
			return
		}
		n := binary.BigEndian.Uint32(hd[:])
		body := make([]byte, n)
		if _, err := io.ReadFull(a, body); err != nil {
			return
		}
		if idx < 0 {
			p.wb.Lock()
			b.Write(frame(body))
			p.wb.Unlock()
			idx++
			continue
		}
		p.wb.Lock()
		t := p.tm(idx)
		for _, in := range t.inject {
			b.Write(frame(syn(in[0], in[1])))
		}
		orig := append([]byte(nil), body...)
		out := append([]byte(nil), body...)
		for _, bit := range t.flip {
			pos := bit % (len(out) * 8)
			out[pos/8] ^= 1 << uint(pos%8)
		}
		if t.trunc > 0 && len(out) > 1 {
			out = out[:1+(t.trunc-1)%(len(out)-1)]
		}
		wire := frame(out)
		if t.hdr >= 0 {
			pos := t.hdr % 32
			wire[pos/8] ^= 1 << uint(pos%8)
		}
		if t.cut >= 0 {
			b.Write(wire[:t.cut%len(wire)])
			p.wb.Unlock()
			if idx < len(p.seen) {
				p.once[idx].Do(func() { close(p.seen[idx]) })
			}
			close(p.cutDone)
			return
		}
		b.Write(wire)
		for _, bit := range t.after {
			d := append([]byte(nil), orig...)
			if bit >= 0 {
				pos := bit % (len(d) * 8)
				d[pos/8] ^= 1 << uint(pos%8)
			}
			b.Write(frame(d))
		}
		p.wb.Unlock()
		stored = append(stored, orig)
		if idx == len(p.seen)-1 { // reflection of client→server frames, after the last one has gone through
			for _, j := range p.mirror {
				if j < len(stored) {
					p.wa.Lock()
					a.Write(frame(stored[j]))
					p.wa.Unlock()
				}
			}
		}
		if idx < len(p.seen) {
			p.once[idx].Do(func() { close(p.seen[idx]) })
		}
		idx++
	}
}

func execMitm(msgsS, opsS string) (res h.Result) {
	var sent []proto.Message
	for i, m := range split(msgsS) {
		pa := strings.Split(m, ":")
		sent = append(sent, mkMsg(i, h.Atoi(pa[0]), h.Atoi(pa[1]), h.Atoi(pa[2])))
	}
	sentinel := len(sent)
	sent = append(sent, mkMsg(sentinel, 0, 0, sentinelSeed))
	tab := map[int]*tamper{}
	get := func(i int) *tamper {
		if tab[i] == nil {
			tab[i] = &tamper{hdr: -1, cut: -1}
		}
		return tab[i]
	}
	errInducing, terminalAt := 0, -1
	replyTo := map[int]bool{}      // messages B answers with Reply
	reflectReply := map[int]bool{} // … and whose reply the proxy also sends back to B (V) or alters on its way to A (A)
	alterBA := map[int]int{}
	var mirror []int
	altered := map[int]bool{} // honest frames the adversary changed themselves
	framingDamage := false
	for _, op := range split(opsS) {
		if j := h.Atoi(strings.Split(op[1:], ":")[0]); op[0] == 'F' || op[0] == 'T' {
			altered[j] = true
		} else if op[0] == 'H' || op[0] == 'X' {
			framingDamage = true
		}
	}
	for _, op := range split(opsS) {
		a := strings.Split(op[1:], ":")
		i := h.Atoi(a[0])
		t := get(i)
		switch op[0] {
		case 'F':
			t.flip = append(t.flip, h.Atoi(a[1]))
			errInducing++
		case 'T':
			t.trunc = 1 + h.Atoi(a[1])
			errInducing++
		case 'H':
			t.hdr = h.Atoi(a[1])
			errInducing += 2
			if terminalAt < 0 || i < terminalAt {
				terminalAt = i
			}
		case 'X':
			t.cut = h.Atoi(a[1])
			errInducing += 2
			if terminalAt < 0 || i < terminalAt {
				terminalAt = i
			}
		case 'D':
			t.after = append(t.after, h.Atoi(a[1]))
			errInducing++
		case 'I':
			t.inject = append(t.inject, [2]int{h.Atoi(a[1]), h.Atoi(a[2])})
			errInducing++
		case 'R':
			t.after = append(t.after, -1)
		case 'M':
			mirror = append(mirror, i)
		case 'V':
			replyTo[i] = true
			reflectReply[i] = true
			errInducing++
		case 'A': // B answers message i; the proxy flips a bit of that B→A frame
			replyTo[i] = true
			reflectReply[i] = true
			alterBA[i] = h.Atoi(a[1])
			errInducing++
		default:
			panic("bad op " + op)
		}
	}
	if len(mirror) > 0 {
		// B answers the last message: its reply reaches A behind the reflected frames, so A's call
		// coming back shows that A has dealt with them
		replyTo[sentinel] = true
	}
	recv := startReceiverAs("B", func([]byte) string { return "" }, replyTo)
	ln, err := net.Listen("tcp", "127.0.0.1:0")
	if err != nil {
		panic(err)
	}
	px := &proxy{ln: ln, target: recv.addr, tab: tab, seen: make([]chan struct{}, len(sent)), once: make([]sync.Once, len(sent)), cutDone: make(chan struct{}),
		reflect: make(chan int, len(sent)), vdone: map[int]chan struct{}{}, mirror: mirror, alterBA: alterBA}
	for i := range px.seen {
		px.seen[i] = make(chan struct{})
		px.vdone[i] = make(chan struct{})
	}
	go px.run()
	// A is a full node too: whatever is reflected to it must not reach ITS subscribers
	arecv := startReceiverAs("A", func(id []byte) string {
		if string(id) == "B" {
			return ln.Addr().String()
		}
		return ""
	}, nil)
	a := arecv.node
	ctx, cancel := context.WithCancel(context.Background())
	stuck := ""
	var repMu sync.Mutex
	rep := map[int]string{}
	for i, m := range sent {
		if reflectReply[i] {
			px.reflect <- i
		}
		go func(i int, m proto.Message) {
			r, err := a.Request(ctx, []byte("B"), m)
			if replyTo[i] {
				repMu.Lock()
				if pg, ok := r.Msg.Message.(*p2p.Pong); err == nil && ok && int(pg.Count) == i {
					rep[i] = "ok"
				} else {
					rep[i] = "err"
				}
				repMu.Unlock()
			}
		}(i, m)
		select {
		case <-px.seen[i]:
		case <-time.After(20 * time.Second):
			stuck = fmt.Sprintf("sender-stuck: frame %d never reached the proxy", i)
		}
		if reflectReply[i] && stuck == "" {
			select { // the reply has been forwarded to A and reflected to B before the next frame leaves
			case <-px.vdone[i]:
			case <-time.After(7 * time.Second):
			}
		}
		if stuck != "" || i == terminalAt {
			break
		}
	}
	// rejected frames no longer stall the connection: unless the framing itself was damaged the
	// last message must come out (event-driven wait); otherwise wait until nothing arrives any more
	certain := !framingDamage && stuck == ""
	if certain && altered[sentinel] {
		// the sentinel's own frame was altered: it will not come out. Wait (event-driven) for the last
		// message whose frame was left alone, then only until nothing arrives any more
		for j := sentinel - 1; j >= 0; j-- {
			if !altered[j] {
				tj, _ := idxOf(sent[j])
				recv.waitFor(tj, j, true)
				break
			}
		}
		certain = false
	}
	back := recv.waitFor(0, sentinel, certain)
	alive := recv.alive()
	aAlive := arecv.alive()
	// replies asked for: wait for the calls to come back (they do within the 5 s request deadline)
	for i := range replyTo {
		for t0 := time.Now(); time.Since(t0) < 7*time.Second; time.Sleep(10 * time.Millisecond) {
			repMu.Lock()
			_, ok := rep[i]
			repMu.Unlock()
			if ok {
				break
			}
		}
	}
	cancel()
	dupOK := map[int]bool{}
	for _, op := range split(opsS) {
		if op[0] == 'R' {
			dupOK[h.Atoi(op[1:])] = true
		}
	}
	res.Impl, res.Oracle = recv.report(len(sent), sent, "A", back, alive, reportOpts{dupOK: dupOK, nonceConsecutive: !framingDamage && stuck == ""})
	// what A's own subscribers saw (nothing was ever sent TO A's subscribers) and the replies A got
	arecv.mu.Lock()
	nA := len(arecv.got)
	arecv.mu.Unlock()
	var reps []string
	for i := 0; i < len(sent); i++ {
		if replyTo[i] {
			repMu.Lock()
			r := rep[i]
			repMu.Unlock()
			if r == "" {
				r = "err"
			}
			reps = append(reps, r)
		}
	}
	rs := "-"
	if len(reps) > 0 {
		rs = strings.Join(reps, ",")
	}
	aa := "yes"
	if !aAlive {
		aa = "no"
	}
	res.Impl += fmt.Sprintf(" a=%d aalive=%s rep=%s", nA, aa, rs)
	if nA > 0 {
		res.Oracle = fmt.Sprintf("reflected-delivered: %d message(s) reached the subscribers of A, to which nothing was ever sent (its own frames reflected back to it)", nA)
	}
	if !aAlive && res.Oracle == "" {
		res.Oracle = "receiver-dead: A no longer delivers over a fresh honest connection"
	}
	if stuck != "" && res.Oracle == "" {
		res.Oracle = stuck
	}
	if !framingDamage && stuck == "" && res.Oracle == "" {
		// injected, duplicated-and-altered, reflected or replayed frames must not cost honest frames
		// their delivery: every message whose own frame was left alone is delivered
		for i := range sent {
			t, _ := idxOf(sent[i])
			if !altered[i] && !recv.has(t, i) {
				res.Oracle = fmt.Sprintf("honest-after-junk-not-delivered: message %d (frame untouched) was never delivered; ops %s", i, opsS)
				break
			}
		}
	}
	if errInducing == 0 && res.Oracle == "" {
		// honest transport: each message exactly once, in order, to the subscriber of its type
		res.Oracle = recv.honestOracle(sent)
	}
	a.Leave()
	recv.node.Leave()
	ln.Close()
	return
}

func (r *receiver) honestOracle(sent []proto.Message) string {
	r.mu.Lock()
	defer r.mu.Unlock()
	last := map[int]int{}
	cnt := map[int]int{}
	replayed := map[int]bool{}
	for _, d := range r.got {
		cnt[d.idx]++
		if cnt[d.idx] > 1 {
			replayed[d.idx] = true
		}
		if l, ok := last[d.t]; ok && d.idx < l {
			return fmt.Sprintf("out-of-order: subscriber %s received %d after %d", typeNames[d.t], d.idx, l)
		}
		last[d.t] = d.idx
	}
	for i := range sent {
		if sent[i] != nil && cnt[i] == 0 {
			return fmt.Sprintf("honest-not-delivered: message %d was sent over an untampered connection and never delivered", i)
		}
	}
	return ""
}

// ---- own endpoint

func execOwn(itemsS string) (res h.Result) {
	items := append(split(itemsS), "G0:0:0")
	recv := startReceiver()
	c, err := net.DialTimeout("tcp", recv.addr, 3*time.Second)
	if err != nil {
		panic(err)
	}
	defer c.Close()
	s, err := boundedHandshake(c, []byte("H"))
	if err != nil {
		panic(err)
	}
	sent := make([]proto.Message, len(items))
	bad := 0
	dupOK := map[int]bool{}
	nonceAlso := map[int]map[uint64]bool{}
	type accepted struct {
		m, sig []byte
		url    string
	}
	acc := map[int]accepted{} // the (payload, signature) pairs of the good packets sent so far
	sealPkg := func(p *p2p.Package) []byte {
		b, err := proto.Marshal(p)
		if err != nil {
			panic(err)
		}
		return s.Seal(b)
	}
	for i, it := range items {
		var a []int
		if len(it) > 1 {
			for _, x := range strings.Split(it[1:], ":") {
				a = append(a, h.Atoi(x))
			}
		}
		arg := func(k int) int {
			if k < len(a) {
				return a[k]
			}
			return 0
		}
		var fr []byte
		switch it[0] {
		case 'G':
			m := mkMsg(i, arg(0), arg(1), arg(2))
			sent[i] = m
			b, _ := s.Plain(m, uint64(i), false, 0)
			fr = s.Seal(b)
			var pa p2p.Package
			if proto.Unmarshal(b, &pa) == nil && pa.Anything != nil {
				acc[i] = accepted{m: pa.Anything.Value, sig: pa.Signature, url: pa.Anything.TypeUrl}
			}
		case 'Q':
			// a packet DERIVED from the accepted packet j = arg(0) by a peer that holds the session key:
			// mode 0 re-split (payload cut at a field boundary, the rest moved in front of the signature),
			// 1 extended payload (signature bytes moved behind the payload), 2 truncated signature,
			// 3 signature followed by extra bytes (bn256 G1 decoding reads the first 64 bytes and ignores the
			// rest — as the code is, see design/C11.md — so this IS a correctly signed second packet of the
			// same payload, sent by the peer itself with its own nonce: delivered), 4 payload and signature
			// swapped, 5 the same package with its fields written in another order (same content: a copy,
			// delivered again like a verbatim replay)
			a0, ok := acc[arg(0)]
			if !ok {
				panic("bad item " + it + ": no good packet at that index")
			}
			M, S := a0.m, a0.sig
			pm, ps := M, S
			switch arg(1) {
			case 0:
				cut := fieldBoundary(M, arg(2))
				pm, ps = M[:cut], append(append([]byte(nil), M[cut:]...), S...)
			case 1:
				cut := 1 + arg(2)%(len(S)-1)
				pm, ps = append(append([]byte(nil), M...), S[:cut]...), S[cut:]
			case 2:
				ps = S[:len(S)-1-arg(2)%(len(S)-1)]
			case 3:
				ps = append(append([]byte(nil), S...), syn(1+arg(2)%40, i)...)
			case 4:
				pm, ps = S, M
			case 5:
			default:
				panic("bad item " + it)
			}
			if arg(1) == 5 {
				// Signature (field 2), ReplyFlag/RequestNonce, Sender, then Anything (field 1) last
				var bb []byte
				bb = protowire.AppendTag(bb, 2, protowire.BytesType)
				bb = protowire.AppendBytes(bb, S)
				bb = protowire.AppendTag(bb, 4, protowire.VarintType)
				bb = protowire.AppendVarint(bb, uint64(arg(0)))
				bb = protowire.AppendTag(bb, 3, protowire.BytesType)
				bb = protowire.AppendBytes(bb, []byte("H"))
				anyb, _ := proto.Marshal(&any.Any{TypeUrl: a0.url, Value: M})
				bb = protowire.AppendTag(bb, 1, protowire.BytesType)
				bb = protowire.AppendBytes(bb, anyb)
				fr = s.Seal(bb)
				dupOK[arg(0)] = true
			} else {
				fr = sealPkg(&p2p.Package{Anything: &any.Any{TypeUrl: a0.url, Value: pm}, Sender: []byte("H"), Signature: ps, RequestNonce: uint64(i)})
				if arg(1) == 3 {
					dupOK[arg(0)] = true
					if nonceAlso[arg(0)] == nil {
						nonceAlso[arg(0)] = map[uint64]bool{}
					}
					nonceAlso[arg(0)][uint64(i)] = true
				} else {
					bad++
				}
			}
		case 'S':
			m := mkMsg(i, arg(1), arg(2), arg(3))
			b, _ := s.Plain(m, uint64(i), false, arg(0))
			fr = s.Seal(b)
			bad++
		case 'N':
			sig, _ := s.Sign([]byte("x"))
			fr = sealPkg(&p2p.Package{Sender: []byte("H"), Signature: sig, RequestNonce: uint64(i)})
			bad++
		case 'U':
			v := []byte{8, byte(i)}
			sig, _ := s.Sign(v)
			fr = sealPkg(&p2p.Package{Anything: &any.Any{TypeUrl: "type.googleapis.com/nosuch.Message", Value: v}, Sender: []byte("H"), Signature: sig, RequestNonce: uint64(i)})
			bad++
		case 'J':
			fr = s.Seal(bytes.Repeat([]byte{0xff}, 1+arg(0)))
			bad++
		case 'E':
			fr = s.Seal(nil)
		case 'W':
			fr = syn(1+arg(0), i+7)
			bad++
		case 'K':
			m := mkMsg(i, arg(0), arg(1), 1)
			b, _ := s.Plain(m, uint64(i), false, 0)
			blk, _ := aes.NewCipher(bytes.Repeat([]byte{0x42}, 32))
			g, _ := cipher.NewGCM(blk)
			fr = g.Seal(nil, s.Nonce, b, nil)
			bad++
		case 'M':
			v := []byte{0xff, 0xff, 0xff}
			sig, _ := s.Sign(v)
			fr = sealPkg(&p2p.Package{Anything: &any.Any{TypeUrl: "type.googleapis.com/" + typeNames[arg(0)%4], Value: v}, Sender: []byte("H"), Signature: sig, RequestNonce: uint64(i)})
			bad++
		case 'P':
			m := mkMsg(i, arg(0), arg(1), arg(2))
			b, _ := s.Plain(m, uint64(i), true, 0)
			fr = s.Seal(b)
		default:
			panic("bad item " + it)
		}
		if err := s.WriteFrame(fr); err != nil {
			break
		}
	}
	sentinel := len(items) - 1
	back := recv.waitFor(0, sentinel, true)
	alive := recv.alive()
	res.Impl, res.Oracle = recv.report(len(items), sent, "H", back, alive, reportOpts{dupOK: dupOK, nonceAlso: nonceAlso, nonceIsIdx: true})
	if bad == 0 && res.Oracle == "" {
		res.Oracle = recv.honestOracle(nonNil(sent))
	}
	recv.node.Leave()
	return
}

func nonNil(ms []proto.Message) []proto.Message { return ms }

// fieldBoundary: the k-th boundary between top-level protobuf fields of b, never len(b) (that would be the
// packet itself again); 0 (an empty payload) only when b has a single field
func fieldBoundary(b []byte, k int) int {
	var cuts []int
	for off := 0; off < len(b); {
		_, _, n := protowire.ConsumeField(b[off:])
		if n <= 0 {
			break
		}
		off += n
		if off < len(b) {
			cuts = append(cuts, off)
		}
	}
	if len(cuts) == 0 {
		return 0
	}
	return cuts[k%len(cuts)]
}

// execRace: n honest connections, each sending one message, each while another inbound
// connection fails its handshake (connects and hangs up).
func execRace(n int) (res h.Result) {
	recv := startReceiver()
	got := 0
	for i := 0; i < n; i++ {
		go func() {
			if c, err := net.Dial("tcp", recv.addr); err == nil {
				c.Close()
			}
		}()
		c, err := net.DialTimeout("tcp", recv.addr, 3*time.Second)
		if err != nil {
			continue
		}
		s, err := boundedHandshake(c, []byte(fmt.Sprintf("peer%d", i)))
		if err == nil {
			s.Send(&p2p.Ping{Count: uint64(i)}, 0, false, 0)
			deadline := time.Now().Add(3 * time.Second)
			for !recv.has(0, i) && time.Now().Before(deadline) {
				select {
				case <-recv.tick:
				case <-time.After(20 * time.Millisecond):
				}
			}
			if recv.has(0, i) {
				got++
			}
		}
		c.Close()
	}
	alive := recv.alive()
	al := "no"
	if alive {
		al = "yes"
	}
	res.Impl = fmt.Sprintf("race delivered=%d/%d alive=%s", got, n, al)
	if got < n {
		res.Oracle = fmt.Sprintf("honest-not-delivered: %d of %d honest connections never had their message delivered while another inbound connection failed its handshake", n-got, n)
	}
	recv.node.Leave()
	return
}

// ---------------------------------------------------------------- generator

func gen(tier string, rng *h.Rng, emit func(string)) {
	thorough := tier == "thorough"
	sizes := []int{1, 2, 3, 15, 16, 17, 100, 1000, 4096, 65535, 65536, 100000}
	msg := func(big bool) string {
		t := rng.Intn(4)
		sz := sizes[rng.Intn(len(sizes))]
		if big {
			t = 2 + rng.Intn(2)
			sz = []int{1 << 19, 1<<20 - 400, 1<<20 - 200}[rng.Intn(3)]
		}
		return fmt.Sprintf("%d:%d:%d", t, sz, rng.Intn(1000))
	}
	msgs := func(n int, big bool) []string {
		var ms []string
		for i := 0; i < n; i++ {
			ms = append(ms, msg(big && i == n/2))
		}
		return ms
	}
	// successive connections with record-and-replay across them
	genHist(tier, h.NewRng(rng.U64()), emit)
	// dispatch by type: subscription histories, messages of every registered type
	genSub(tier, h.NewRng(rng.U64()), emit)
	// the known finding gcm-nonce-reuse-forgery: a keyless proxy forges frames once it has seen three
	genGcm(emit)
	// what the handshake binds: announced ids (B's own = 42, another member's, empty, long), presented keys
	for _, l := range []string{"hs 41 k", "hs 42 k", "hs - k", "hs 4242 k", "hs 000102030405060708090a0b0c0d0e0f10111213 k", "hs 41 i", "hs 41 g", "hs - g", "hsmitm 3"} {
		emit(l)
	}
	// honest transport
	emit("mitm 0:1:1 -")
	emit("mitm 0:1:1,1:1:2,2:1:3,3:1:4,2:17:5,3:4096:6,0:1:7,1:1:8 -")
	emit("mitm " + strings.Join(msgs(5, true), ",") + " -")
	emit("mitm 2:1048000:9 -")
	// one tampering op at a time, every kind, position anywhere
	kinds := "FTDIHXRMV"
	n1 := 54
	if thorough {
		n1 = 500
	}
	for i := 0; i < n1; i++ {
		n := 1 + rng.Intn(6)
		ms := msgs(n, rng.Intn(25) == 0)
		k := kinds[i%len(kinds)]
		f := rng.Intn(n + 1) // frame index, may be the sentinel
		if k == 'D' || k == 'R' || k == 'V' {
			f = rng.Intn(n) // what follows the sentinel is not awaited
		}
		var op string
		switch k {
		case 'F':
			op = fmt.Sprintf("F%d:%d", f, rng.Intn(1<<23))
			if i%3 == 0 {
				op = fmt.Sprintf("F%d:%d", f, rng.Intn(8*16)) // early bytes
			}
		case 'T':
			op = fmt.Sprintf("T%d:%d", f, rng.Intn(1<<20))
		case 'D':
			op = fmt.Sprintf("D%d:%d", f, rng.Intn(1<<23))
		case 'I':
			op = fmt.Sprintf("I%d:%d:%d", f, []int{1, 2, 16, 17, 100, 5000, 70000}[rng.Intn(7)], rng.Intn(1000))
		case 'H':
			op = fmt.Sprintf("H%d:%d", f, rng.Intn(32))
		case 'X':
			op = fmt.Sprintf("X%d:%d", f, rng.Intn(1<<20))
		case 'R':
			op = fmt.Sprintf("R%d", f)
		case 'M': // reflection of client→server frames back to the client: one, or several
			op = fmt.Sprintf("M%d", f)
			for j := rng.Intn(3); j > 0; j-- {
				op += fmt.Sprintf(",M%d", rng.Intn(n+1))
			}
		case 'V': // reflection of a server→client frame (a reply) back to the server
			op = fmt.Sprintf("V%d", f)
			if f+1 <= n && rng.Bool() {
				op += fmt.Sprintf(",I%d:%d:%d", f+1+rng.Intn(n-f), 1+rng.Intn(200), rng.Intn(1000))
			}
		}
		emit("mitm " + strings.Join(ms, ",") + " " + op)
	}
	emit("mitm 0:1:1,1:1:2,2:50:3 M0,M1,M3")
	emit("mitm 0:1:1,1:1:2,2:50:3 V1,M0,M2")
	// a REPLY (B→A) altered in transit: the call must not return it
	// (only the reply to the LAST message: after the rejected frame A's run returns and its next request
	// dials a new connection — or not, a race — so nothing may follow on the scripted one)
	emit(fmt.Sprintf("mitm 0:1:1,2:30:2,1:1:3 A3:%d", rng.Intn(1<<12)))
	emit(fmt.Sprintf("mitm 3:100:1,0:1:2 V0,A2:%d", rng.Intn(1<<12)))
	emit("mitm 2:100:1,3:100:2 I0:10:1,I0:20:2,I1:5:3,D1:77,I2:9:4")
	// several ops
	n2 := 20
	if thorough {
		n2 = 250
	}
	for i := 0; i < n2; i++ {
		n := 2 + rng.Intn(8)
		ms := msgs(n, false)
		var ops []string
		for j := 0; j < 2+rng.Intn(3); j++ {
			f := rng.Intn(n + 1)
			switch rng.Intn(5) {
			case 0:
				ops = append(ops, fmt.Sprintf("F%d:%d", f, rng.Intn(1<<20)))
			case 1:
				ops = append(ops, fmt.Sprintf("T%d:%d", f, rng.Intn(1<<16)))
			case 2:
				ops = append(ops, fmt.Sprintf("D%d:%d", rng.Intn(n), rng.Intn(1<<20)))
			case 3:
				ops = append(ops, fmt.Sprintf("I%d:%d:%d", f, 1+rng.Intn(300), rng.Intn(1000)))
			default:
				ops = append(ops, fmt.Sprintf("R%d", rng.Intn(n)))
			}
		}
		emit("mitm " + strings.Join(ms, ",") + " " + strings.Join(ops, ","))
	}
	// honest connections alongside failing ones
	emit("race 25")
	if thorough {
		emit("race 100")
	}
	// the key-holding endpoint
	emit("own -")
	emit("own G0:1:1,G1:1:1,G2:50:3,G3:70:4")
	for mode := 1; mode <= 4; mode++ {
		emit(fmt.Sprintf("own G0:1:1,S%d:%d:20:5,G2:9:9", mode, mode%4))
		emit(fmt.Sprintf("own S%d:2:1000:5", mode))
	}
	for _, it := range []string{"N", "U", "J5", "J0", "E", "W1", "W40", "K0:1", "K2:300", "M0", "M2", "P0:1:1", "P2:10:1"} {
		emit("own G1:1:1," + it + ",G2:5:5")
	}
	// packets derived from an accepted one by a peer holding the session key (multi-step, one connection)
	for mode := 0; mode <= 5; mode++ {
		emit(fmt.Sprintf("own G3:40:7,Q0:%d:%d,G2:9:9", mode, rng.Intn(50)))
		emit(fmt.Sprintf("own G%d:%d:%d,G0:1:1,Q0:%d:%d,Q1:%d:%d", 2+rng.Intn(2), 1+rng.Intn(300), rng.Intn(100), mode, rng.Intn(50), (mode+1)%5, rng.Intn(50)))
	}
	n3 := 30
	if thorough {
		n3 = 300
	}
	badItems := []string{"S1:0:5:2", "S2:2:50:2", "S3:1:5:2", "S4:3:5:2", "N", "U", "J9", "W30", "K1:5", "M1", "M3"}
	for i := 0; i < n3; i++ {
		n := 1 + rng.Intn(8)
		nb := 1
		if i%3 == 0 {
			nb = 2 + rng.Intn(2)
		}
		its := make([]string, n)
		for j := range its {
			switch rng.Intn(8) {
			case 0:
				its[j] = "E"
			case 1:
				its[j] = fmt.Sprintf("P%d:%d:%d", rng.Intn(4), 1+rng.Intn(100), rng.Intn(100))
			default:
				its[j] = "G" + msg(false)
			}
		}
		for j := 0; j < nb; j++ {
			its[rng.Intn(n)] = badItems[rng.Intn(len(badItems))]
		}
		emit("own " + strings.Join(its, ","))
	}
}

// genGcm: the cases of the known finding gcm-nonce-reuse-forgery (KNOWN_FINDINGS.txt)
func genGcm(emit func(string)) {
	emit("gcm C")
	emit("gcm P")
	emit("gcm N,C")
	emit("gcm P,B,N")
}

/-
The subscription table of p2p/server.go: messageDispatch (one goroutine owning
`subscriptions map[string]chan P2PMessage`), SubscribeMsg, UnSubscribeMsg.

"Each message the remote endpoint sends is delivered once TO THE SUBSCRIBER OF ITS TYPE":
the table is keyed by a STRING computed from the Go type at three places — where a message is
looked up (messageDispatch, from the dynamic type of what ptypes.UnmarshalAny produced: a pointer
to the registered struct), where a subscription is filed (SubscribeMsg, from the value the
subscriber handed in) and where one is removed (UnSubscribeMsg).  Delivery to the subscriber of the
message's type is exactly the statement that these three computations agree on every type and
separate every two types that can occur.  The model is therefore parametric in the three key
computations (regenerated from the source, `P2PSubCfg.lean`) and in the set of types
(the registered protobuf types, regenerated too).

Events are the iterations of messageDispatch's loop (it is one goroutine; `subscribeMsg` and
`unscribeMsg` are unbuffered, so a SubscribeMsg / UnSubscribeMsg call that has returned has been
taken by the loop).  SubscribeMsg with several types makes one channel per type and merges them: the
model gives all of them the caller's channel number.  A later subscription for the same key
REPLACES the earlier one (the earlier channel is not closed, it just gets nothing any more);
UnSubscribeMsg deletes the entry and does not close the channel either.
-/
import DosModel.Model.Util

namespace Dos.P2PSub
open Dos

/-- a Go struct type: import path of its package (its identity), the package NAME (what
reflect.Type.String() prints — not the path) and the type name -/
structure TypeId where
  path : String
  pkg  : String
  name : String
  deriving DecidableEq, Repr

/-- what reflect.TypeOf is applied to: a struct value of type `ty`, or a pointer to one -/
structure Handed where
  ty  : TypeId
  ptr : Bool
  deriving DecidableEq, Repr

/-- the ways the code (or an edit of it) computes the table key from `reflect.TypeOf(x)` -/
inductive KeyFn
  | str        -- reflect.TypeOf(x).String()
  | strStrip   -- reflect.TypeOf(x).String() with one leading '*' cut off
  | bare       -- the struct's Name() (pointers looked through): no package
  | other      -- anything the extractor does not recognise
  deriving DecidableEq, Repr

/-- reflect.Type.String() of a struct type / pointer to it -/
def typeString (h : Handed) : String :=
  (if h.ptr then "*" else "") ++ h.ty.pkg ++ "." ++ h.ty.name

def KeyFn.key : KeyFn → Handed → String
  | .str, h => typeString h
  | .strStrip, h => h.ty.pkg ++ "." ++ h.ty.name
  | .bare, h => h.ty.name
  | .other, _ => ""

structure Cfg where
  dispatch    : KeyFn   -- messageDispatch: key a message is looked up with
  subscribe   : KeyFn   -- SubscribeMsg: key a subscription is filed under
  unsubscribe : KeyFn   -- UnSubscribeMsg: key that is deleted
  deriving DecidableEq, Repr

/-- one iteration of messageDispatch's loop -/
inductive Ev
  | subscribe (ch : Nat) (h : Handed)     -- `case sub := <-n.subscribeMsg`
  | unsubscribe (h : Handed)              -- `case msgType := <-n.unscribeMsg`
  | msg (id : Nat) (ty : TypeId)          -- `case msg := <-n.peersFeed`, dynamic type *ty
  deriving DecidableEq, Repr

/-- the map `subscriptions`, as an association list (first match wins; `set` removes older entries) -/
abbrev Table := List (String × Nat)

def Table.get (t : Table) (k : String) : Option Nat :=
  match t with
  | [] => none
  | (k', ch) :: r => if k' = k then some ch else Table.get r k

def Table.del (t : Table) (k : String) : Table := t.filter fun e => e.1 ≠ k

def Table.set (t : Table) (k : String) (ch : Nat) : Table := (k, ch) :: Table.del t k

/-- a delivery: message `id` put on channel `ch` -/
structure Out where
  ch : Nat
  id : Nat
  deriving DecidableEq, Repr

def step (c : Cfg) (t : Table) : Ev → Table × Option Out
  | .subscribe ch h => (t.set (c.subscribe.key h) ch, none)
  | .unsubscribe h => (t.del (c.unsubscribe.key h), none)
  | .msg id ty =>
    match t.get (c.dispatch.key ⟨ty, true⟩) with
    | some ch => (t, some ⟨ch, id⟩)
    | none => (t, none)

/-- the loop over a history: final table and everything delivered, in order -/
def run (c : Cfg) : Table → List Ev → Table × List Out
  | t, [] => (t, [])
  | t, e :: es =>
    let (t', o) := step c t e
    let (t'', os) := run c t' es
    (t'', match o with | some x => x :: os | none => os)

/-! ### the specification: who IS the subscriber of a type

Read off the history alone, by TYPE IDENTITY (no strings): the channel of the last
subscription for `ty` handed in as a struct value that no unsubscription for `ty` followed.
(A subscription handed a POINTER is not one for the struct type: see `ptr_subscription_is_dead`.) -/
def subscriberOf (ty : TypeId) : List Ev → Option Nat → Option Nat
  | [], cur => cur
  | .subscribe ch h :: es, cur => subscriberOf ty es (if h.ty = ty ∧ h.ptr = false then some ch else cur)
  | .unsubscribe h :: es, cur => subscriberOf ty es (if h.ty = ty ∧ h.ptr = false then none else cur)
  | .msg _ _ :: es, cur => subscriberOf ty es cur

/-- the deliveries the property asks for: each message to the subscriber its type has at that moment -/
def specRun : List Ev → (TypeId → Option Nat) → List Out
  | [], _ => []
  | .subscribe ch h :: es, cur =>
    specRun es (fun ty => if h.ty = ty ∧ h.ptr = false then some ch else cur ty)
  | .unsubscribe h :: es, cur =>
    specRun es (fun ty => if h.ty = ty ∧ h.ptr = false then none else cur ty)
  | .msg id ty :: es, cur =>
    match cur ty with
    | some ch => ⟨ch, id⟩ :: specRun es cur
    | none => specRun es cur

/-- the types an event mentions -/
def Ev.ty : Ev → TypeId
  | .subscribe _ h => h.ty
  | .unsubscribe h => h.ty
  | .msg _ ty => ty

/-- the value an event hands to reflect.TypeOf is a struct value (subscribers) -/
def Ev.byValue : Ev → Bool
  | .subscribe _ h => !h.ptr
  | .unsubscribe h => !h.ptr
  | .msg _ _ => true

/-! ### driver: `sub <sync> <ops>` (go/props/c16/sub.go) -/

def findType (reg : List (String × TypeId)) (protoName : String) : Option TypeId :=
  match reg.find? (fun e => e.1 == protoName) with
  | some e => some e.2
  | none => none

/-- ops: `S<ch>:<t>[+<t>…]` subscribe by value, `Q<ch>:<t>` subscribe handing a pointer,
`U:<t>` / `V:<t>` unsubscribe by value / pointer, `M:<t>` a message (its id is the op's position) -/
def parseOp (reg : List (String × TypeId)) (i : Nat) (op : String) : Option (List Ev) :=
  let kind := (op.take 1).toString
  match ((op.drop 1).toString.splitOn ":") with
  | [a, ts] =>
    match kind with
    | "S" | "Q" =>
      match a.toNat? with
      | some ch => (ts.splitOn "+").mapM fun t => (findType reg t).map fun ty => Ev.subscribe ch ⟨ty, kind == "Q"⟩
      | none => none
    | "U" | "V" => if a == "" then (findType reg ts).map fun ty => [Ev.unsubscribe ⟨ty, kind == "V"⟩] else none
    | "M" => if a == "" then (findType reg ts).map fun ty => [Ev.msg i ty] else none
    | _ => none
  | _ => none

def insertSorted (x : Nat) : List Nat → List Nat
  | [] => [x]
  | y :: ys => if x ≤ y then x :: y :: ys else y :: insertSorted x ys

/-- per channel the ids SORTED: SubscribeMsg merges one channel per type with a goroutine each, so the order
between messages of different types on one subscriber channel is not determined by the code -/
def showOuts (nch : Nat) (os : List Out) : String :=
  String.intercalate " " <| (List.range nch).map fun ch =>
    let ids := ((os.filter fun o => o.ch = ch).map fun o => o.id).foldr insertSorted [] |>.map toString
    s!"c{ch}=" ++ (if ids.isEmpty then "-" else String.intercalate "," ids)

def maxCh : List Ev → Nat
  | [] => 0
  | .subscribe ch _ :: es => Nat.max (ch + 1) (maxCh es)
  | _ :: es => maxCh es

def stepSub (c : Cfg) (reg : List (String × TypeId)) (ops : String) : String :=
  let opl := if ops == "-" then [] else ops.splitOn ","
  match (List.zip (List.range opl.length) opl).mapM fun (i, op) => parseOp reg i op with
  | none => "bad-op"
  | some evss =>
    let evs := evss.flatten
    let n := (evs.filter fun e => match e with | .msg _ _ => true | _ => false).length
    let outs := showOuts (maxCh evs) (run c [] evs).2
    if outs == "" then s!"n={n}" else outs ++ s!" n={n}"

end Dos.P2PSub

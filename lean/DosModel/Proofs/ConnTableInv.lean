import DosModel.Proofs.ConnTable

/-! The nonce invariant of the connection-table model: every nonce names one request, and every
table entry / frame in flight / message held by an application that carries a nonce carries the
request that nonce was given to.  It does not depend on how the tables are keyed. -/
set_option linter.unusedSimpArgs false
namespace Dos.ConnTable
open Dos

structure Inv (s : Net) : Prop where
  reqLt : ∀ i ν, (s.reqs i).nonce = some ν → i < s.nreq
  sp    : ∀ i ν, (s.reqs i).nonce = some ν → ∃ c, c < s.nconn ∧ ν.space = c + 1 ∧ ν.idx < (s.conns c).next
  uniq  : ∀ i j ν, (s.reqs i).nonce = some ν → (s.reqs j).nonce = some ν → i = j
  pend  : ∀ c ν i, (ν, i) ∈ (s.conns c).pend → (s.reqs i).nonce = some ν
  reqQ  : ∀ c ν g, (ν, g) ∈ (s.conns c).reqQ → (s.reqs g).nonce = some ν
  held  : ∀ n h, h ∈ (s.nodes n).held → (s.reqs h.g).nonce = some h.nonce
  repQ  : ∀ c ν m, (ν, m) ∈ (s.conns c).repQ → (s.reqs m).nonce = some ν
  outLt : ∀ n k c, (s.nodes n).out k = some c → c < s.nconn
  pconn : ∀ c ν i, (ν, i) ∈ (s.conns c).pend → (s.reqs i).conn = some c

theorem Inv.init (ideal : Nat → Bool) : Inv (init ideal) where
  reqLt := by intro i ν h; simp [ConnTable.init] at h
  sp := by intro i ν h; simp [ConnTable.init] at h
  uniq := by intro i j ν h; simp [ConnTable.init] at h
  pend := by intro c ν i h; simp [ConnTable.init] at h
  reqQ := by intro c ν i h; simp [ConnTable.init] at h
  held := by intro n h hh; simp [ConnTable.init] at hh
  repQ := by intro c ν i h; simp [ConnTable.init] at h
  outLt := by intro n k c h; simp [ConnTable.init] at h
  pconn := by intro c ν i h; simp [ConnTable.init] at h

/-- an event that creates no nonce: requests keep their nonce fields, counters do not go back, tables and
queues only lose entries or move them along request → held → reply -/
theorem Inv.frame {s s' : Net} (hI : Inv s)
    (hreq : ∀ i, (s'.reqs i).nonce = (s.reqs i).nonce)
    (hconn : ∀ i ν, (s.reqs i).nonce = some ν → (s'.reqs i).conn = (s.reqs i).conn)
    (hnreq : s.nreq ≤ s'.nreq) (hnconn : s.nconn ≤ s'.nconn)
    (hnext : ∀ c, c < s.nconn → (s.conns c).next ≤ (s'.conns c).next)
    (hpend : ∀ c e, e ∈ (s'.conns c).pend → e ∈ (s.conns c).pend)
    (hreqQ : ∀ c e, e ∈ (s'.conns c).reqQ → e ∈ (s.conns c).reqQ)
    (hheld : ∀ n h, h ∈ (s'.nodes n).held → h ∈ (s.nodes n).held ∨ ∃ c, (h.nonce, h.g) ∈ (s.conns c).reqQ)
    (hrepQ : ∀ c e, e ∈ (s'.conns c).repQ → e ∈ (s.conns c).repQ ∨ ∃ n h, h ∈ (s.nodes n).held ∧ e = (h.nonce, h.g))
    (hout : ∀ n k c, (s'.nodes n).out k = some c → (s.nodes n).out k = some c) : Inv s' where
  reqLt := by intro i ν h; rw [hreq] at h; exact Nat.lt_of_lt_of_le (hI.reqLt i ν h) hnreq
  sp := by
    intro i ν h; rw [hreq] at h
    obtain ⟨c, hc, hs, hx⟩ := hI.sp i ν h
    exact ⟨c, Nat.lt_of_lt_of_le hc hnconn, hs, Nat.lt_of_lt_of_le hx (hnext c hc)⟩
  uniq := by intro i j ν hi hj; rw [hreq] at hi hj; exact hI.uniq i j ν hi hj
  pend := by intro c ν i h; rw [hreq]; exact hI.pend c ν i (hpend c _ h)
  reqQ := by intro c ν g h; rw [hreq]; exact hI.reqQ c ν g (hreqQ c _ h)
  held := by
    intro n h hh; rw [hreq]
    rcases hheld n h hh with h1 | ⟨c, h1⟩
    · exact hI.held n h h1
    · exact hI.reqQ c _ _ h1
  repQ := by
    intro c ν m h; rw [hreq]
    rcases hrepQ c _ h with h1 | ⟨n, hd, h1, h2⟩
    · exact hI.repQ c ν m h1
    · have := hI.held n hd h1
      simp only [Prod.mk.injEq] at h2
      rw [h2.1, h2.2]; exact this
  outLt := by intro n k c h; exact Nat.lt_of_lt_of_le (hI.outLt n k c (hout n k c h)) hnconn
  pconn := by
    intro c ν i h
    have h' := hpend c _ h
    rw [hconn i ν (hI.pend c ν i h')]; exact hI.pconn c ν i h'

theorem Inv.newReq {s : Net} (hI : Inv s) (a b : Nat) : Inv (newReq s a b) := by
  have hnone : (s.reqs s.nreq).nonce = none := by
    cases h : (s.reqs s.nreq).nonce with
    | none => rfl
    | some ν => exact absurd (hI.reqLt _ ν h) (Nat.lt_irrefl _)
  have hreq : ∀ i, ((ConnTable.newReq s a b).reqs i).nonce = (s.reqs i).nonce := by
    intro i; rw [newReq_reqs]; split
    · rename_i h; subst h; rw [hnone]
    · rfl
  have hconn : ∀ i ν, (s.reqs i).nonce = some ν → ((ConnTable.newReq s a b).reqs i).conn = (s.reqs i).conn := by
    intro i ν h; rw [newReq_reqs]; split
    · rename_i h'; subst h'; rw [hnone] at h; simp at h
    · rfl
  exact hI.frame hreq hconn (by simp) (by simp) (by intro c _; simp) (by intro c e h; simpa using h)
    (by intro c e h; simpa using h) (by intro n h hh; left; simpa using hh)
    (by intro c e h; left; simpa using h) (by intro n k c h; simpa using h)

theorem Inv.failReq {s : Net} (hI : Inv s) (i : Nat) : Inv (failReq s i) := by
  have hreq : ∀ j, ((ConnTable.failReq s i).reqs j).nonce = (s.reqs j).nonce := by
    intro j; rw [failReq_reqs]; split <;> rfl
  have hconn : ∀ j ν, (s.reqs j).nonce = some ν → ((ConnTable.failReq s i).reqs j).conn = (s.reqs j).conn := by
    intro j ν _; rw [failReq_reqs]; split <;> rfl
  exact hI.frame hreq hconn (by simp) (by simp) (by intro c _; simp) (by intro c e h; simpa using h)
    (by intro c e h; simpa using h) (by intro n h hh; left; simpa using hh)
    (by intro c e h; left; simpa using h) (by intro n k c h; simpa using h)

theorem Inv.openConn (cfg : Cfg) {s : Net} (hI : Inv s) (a b x : Nat) : Inv (openConn cfg s a b x) where
  reqLt := by intro i ν h; simp only [openConn_reqs, openConn_nreq] at h ⊢; exact hI.reqLt i ν h
  sp := by
    intro i ν h; simp only [openConn_reqs] at h
    obtain ⟨c, hc, hs, hx⟩ := hI.sp i ν h
    refine ⟨c, by simp only [openConn_nconn]; exact Nat.lt_succ_of_lt hc, hs, ?_⟩
    rw [openConn_conns, if_neg (Nat.ne_of_lt hc)]; exact hx
  uniq := by intro i j ν hi hj; simp only [openConn_reqs] at hi hj; exact hI.uniq i j ν hi hj
  pend := by
    intro c ν i h; simp only [openConn_reqs]; rw [openConn_conns] at h
    split at h
    · simp [mkConn] at h
    · exact hI.pend c ν i h
  reqQ := by
    intro c ν i h; simp only [openConn_reqs]; rw [openConn_conns] at h
    split at h
    · simp [mkConn] at h
    · exact hI.reqQ c ν i h
  held := by intro n h hh; simp only [openConn_reqs]; rw [openConn_held] at hh; exact hI.held n h hh
  repQ := by
    intro c ν i h; simp only [openConn_reqs]; rw [openConn_conns] at h
    split at h
    · simp [mkConn] at h
    · exact hI.repQ c ν i h
  outLt := by
    intro n k c h
    simp only [openConn_nconn]
    rw [openConn_nodes] at h
    simp only [] at h
    have key : ∀ (nd : Node), (∀ k c, nd.out k = some c → c < s.nconn) →
        ∀ k c, (if n = a then { nd with out := setTab nd.out (keyVal cfg.outStore a x b) (some s.nconn) } else nd).out k = some c →
        c < s.nconn + 1 := by
      intro nd hnd k c hk
      split at hk
      · simp only [setTab] at hk
        split at hk
        · simp at hk; omega
        · exact Nat.lt_succ_of_lt (hnd k c hk)
      · exact Nat.lt_succ_of_lt (hnd k c hk)
    apply key _ _ k c h
    intro k c hk
    split at hk
    · exact hI.outLt n k c hk
    · exact hI.outLt n k c hk
  pconn := by
    intro c ν i h; simp only [openConn_reqs]; rw [openConn_conns] at h
    split at h
    · simp [mkConn] at h
    · exact hI.pconn c ν i h

theorem Inv.hand (cfg : Cfg) (hnb : cfg.nonceBase = true) {s : Net} (hI : Inv s) (i c : Nat)
    (hc : c < s.nconn) (hi : i < s.nreq) (hn : (s.reqs i).nonce = none) : Inv (hand cfg s i c) := by
  cases hcl : (s.conns c).clD
  case true => rw [hand_closed cfg s i c hcl]; exact hI
  case false =>
  rw [hand_open cfg s i c hcl]
  have hν : nonceFor cfg s c = ⟨c + 1, (s.conns c).next⟩ := by simp [nonceFor, spaceOf, hnb]
  -- nobody has this nonce yet
  have hfresh : ∀ j, (s.reqs j).nonce ≠ some (nonceFor cfg s c) := by
    intro j hj
    obtain ⟨c', _, hs, hx⟩ := hI.sp j _ hj
    rw [hν] at hs hx
    simp only at hs hx
    have : c' = c := by omega
    subst this; exact Nat.lt_irrefl _ hx
  have hreqs : ∀ j, (((s.setConn c (handF cfg s i c)).setReq i (fun r => { r with conn := some c, nonce := some (nonceFor cfg s c) })).reqs j).nonce =
      if j = i then some (nonceFor cfg s c) else (s.reqs j).nonce := by
    intro j; simp only [setReq_reqs, setConn_reqs]; split <;> rfl
  constructor
  · intro j ν h; rw [hreqs] at h; simp only [setReq_nreq, setConn_nreq]
    split at h
    · rename_i hji; subst hji; exact hi
    · exact hI.reqLt j ν h
  · intro j ν h; rw [hreqs] at h
    simp only [setReq_nconn, setConn_nconn, setReq_conns]
    split at h
    · simp only [Option.some.injEq] at h; subst h
      refine ⟨c, hc, by rw [hν], ?_⟩
      rw [setConn_conns_same, handF_next, hν]; simp
    · obtain ⟨c', hc', hs, hx⟩ := hI.sp j ν h
      refine ⟨c', hc', hs, ?_⟩
      rw [setConn_conns]; split
      · rename_i hcc; subst hcc; rw [handF_next]; omega
      · exact hx
  · intro j k ν hj hk; rw [hreqs] at hj hk
    split at hj <;> split at hk
    · rename_i h1 h2; rw [h1, h2]
    · simp only [Option.some.injEq] at hj; subst hj; exact absurd hk (hfresh k)
    · simp only [Option.some.injEq] at hk; subst hk; exact absurd hj (hfresh j)
    · exact hI.uniq j k ν hj hk
  · intro e ν j h; rw [hreqs]
    simp only [setReq_conns] at h
    rw [setConn_conns] at h
    split at h
    · simp only [handF_pend, List.mem_cons, Prod.mk.injEq] at h
      rcases h with ⟨h1, h2⟩ | h
      · subst h1 h2; simp
      · have := hI.pend _ ν j h
        split
        · rename_i hji; subst hji; rw [hn] at this; simp at this
        · exact this
    · have := hI.pend e ν j h
      split
      · rename_i hji; subst hji; rw [hn] at this; simp at this
      · exact this
  · intro e ν j h; rw [hreqs]
    simp only [setReq_conns] at h
    rw [setConn_conns] at h
    have old : ∀ e, (ν, j) ∈ (s.conns e).reqQ → (if j = i then some (nonceFor cfg s c) else (s.reqs j).nonce) = some ν := by
      intro e h
      have := hI.reqQ e ν j h
      split
      · rename_i hji; subst hji; rw [hn] at this; simp at this
      · exact this
    split at h
    · rw [handF_reqQ] at h
      split at h
      · simp only [List.mem_append, List.mem_singleton, Prod.mk.injEq] at h
        rcases h with h | ⟨h1, h2⟩
        · exact old _ h
        · subst h1 h2; simp
      · exact old _ h
    · exact old _ h
  · intro n h hh; rw [hreqs]
    simp only [setReq_nodes, setConn_nodes] at hh
    have := hI.held n h hh
    split
    · rename_i hji; rw [hji, hn] at this; simp at this
    · exact this
  · intro e ν j h; rw [hreqs]
    simp only [setReq_conns] at h
    rw [setConn_conns] at h
    have old : ∀ e, (ν, j) ∈ (s.conns e).repQ → (if j = i then some (nonceFor cfg s c) else (s.reqs j).nonce) = some ν := by
      intro e h
      have := hI.repQ e ν j h
      split
      · rename_i hji; subst hji; rw [hn] at this; simp at this
      · exact this
    split at h
    · rw [handF_repQ] at h; exact old _ h
    · exact old _ h
  · intro n k c' h
    simp only [setReq_nodes, setConn_nodes, setReq_nconn, setConn_nconn] at h ⊢
    exact hI.outLt n k c' h
  · intro e ν j h
    simp only [setReq_conns] at h
    rw [setConn_conns] at h
    have old : ∀ e, (ν, j) ∈ (s.conns e).pend →
        (((s.setConn c (handF cfg s i c)).setReq i (fun r => { r with conn := some c, nonce := some (nonceFor cfg s c) })).reqs j).conn = some e := by
      intro e he
      have hj : j ≠ i := by
        intro hji; have := hI.pend e ν j he; rw [hji, hn] at this; simp at this
      simp only [setReq_reqs, setConn_reqs, hj, if_false]
      exact hI.pconn e ν j he
    split at h
    · rename_i hec; subst hec
      simp only [handF_pend, List.mem_cons, Prod.mk.injEq] at h
      rcases h with ⟨_, h2⟩ | h
      · subst h2; simp
      · exact old _ h
    · exact old _ h

/-! ### every event preserves the invariant -/

/-- `retAtD` / `retAtA` touch no nonce, queue, table or counter -/
theorem Inv.retAtD (cfg : Cfg) {s : Net} (hI : Inv s) (c : Nat) : Inv (retAtD cfg s c) := by
  refine hI.frame (by simp) (by intro i ν _; simp) (by simp) (by simp) ?_ ?_ ?_ ?_ ?_ ?_
  · intro e _; rw [retAtD_conns]; split <;> exact Nat.le_refl _
  · intro e x h; rw [retAtD_conns] at h; split at h <;> exact h
  · intro e x h; rw [retAtD_conns] at h; split at h <;> exact h
  · intro n h hh; left; rw [retAtD_nodes] at hh; split at hh <;> exact hh
  · intro e x h; left; rw [retAtD_conns] at h; split at h <;> exact h
  · intro n k c' h; rw [retAtD_nodes] at h; split at h <;> exact h

theorem Inv.retAtA (cfg : Cfg) {s : Net} (hI : Inv s) (c : Nat) : Inv (retAtA cfg s c) := by
  refine hI.frame (by simp) (by intro i ν _; simp) (by simp) (by simp) ?_ ?_ ?_ ?_ ?_ ?_
  · intro e _; rw [retAtA_conns]; split <;> exact Nat.le_refl _
  · intro e x h; rw [retAtA_conns] at h; split at h <;> exact h
  · intro e x h; rw [retAtA_conns] at h; split at h <;> exact h
  · intro n h hh; left; rw [retAtA_nodes] at hh; split at hh <;> exact hh
  · intro e x h; left; rw [retAtA_conns] at h; split at h <;> exact h
  · intro n k c' h; rw [retAtA_nodes] at h; split at h <;> exact h

/-- a change of one connection record that keeps the counter and only drops entries -/
theorem Inv.setConn_shrink {s : Net} (hI : Inv s) (c : Nat) (f : Conn → Conn)
    (hn : (f (s.conns c)).next = (s.conns c).next)
    (hp : ∀ e, e ∈ (f (s.conns c)).pend → e ∈ (s.conns c).pend)
    (hq : ∀ e, e ∈ (f (s.conns c)).reqQ → e ∈ (s.conns c).reqQ)
    (hr : ∀ e, e ∈ (f (s.conns c)).repQ → e ∈ (s.conns c).repQ) : Inv (s.setConn c f) := by
  refine hI.frame (by simp) (by intro i ν _; simp) (by simp) (by simp) ?_ ?_ ?_ ?_ ?_ ?_
  · intro e _; rw [setConn_conns]; split
    · rename_i h; subst h; rw [hn]; exact Nat.le_refl _
    · exact Nat.le_refl _
  · intro e x h; rw [setConn_conns] at h; split at h
    · rename_i h'; subst h'; exact hp x h
    · exact h
  · intro e x h; rw [setConn_conns] at h; split at h
    · rename_i h'; subst h'; exact hq x h
    · exact h
  · intro n h hh; left; simpa using hh
  · intro e x h; left; rw [setConn_conns] at h; split at h
    · rename_i h'; subst h'; exact hr x h
    · exact h
  · intro n k c' h; simpa using h

/-- a change of the requests that leaves every nonce field alone -/
theorem Inv.setReqs {s : Net} (hI : Inv s) (rq : Nat → Req)
    (h : ∀ i, (rq i).nonce = (s.reqs i).nonce ∧ (rq i).conn = (s.reqs i).conn) :
    Inv { s with reqs := rq } :=
  hI.frame (fun i => (h i).1) (fun i _ _ => (h i).2) (Nat.le_refl _) (Nat.le_refl _) (fun _ _ => Nat.le_refl _) (fun _ _ h => h) (fun _ _ h => h)
    (fun _ _ h => Or.inl h) (fun _ _ h => Or.inl h) (fun _ _ _ h => h)

/-- a change of one node that only drops held messages and table entries -/
theorem Inv.setNode_shrink {s : Net} (hI : Inv s) (n : Nat) (f : Node → Node)
    (hh : ∀ x, x ∈ (f (s.nodes n)).held → x ∈ (s.nodes n).held)
    (ho : ∀ k c, (f (s.nodes n)).out k = some c → (s.nodes n).out k = some c) : Inv (s.setNode n f) := by
  refine hI.frame (by simp) (by intro i ν _; simp) (by simp) (by simp) (by intro e _; simp) (by intro e x h; simpa using h)
    (by intro e x h; simpa using h) ?_ (by intro e x h; left; simpa using h) ?_
  · intro m x hx; left; rw [setNode_nodes] at hx; split at hx
    · rename_i h'; subst h'; exact hh x hx
    · exact hx
  · intro m k c h; rw [setNode_nodes] at h; split at h
    · rename_i h'; subst h'; exact ho k c h
    · exact h

theorem setTab_none_sub (t : Nat → Option Nat) (id k c : Nat) (h : setTab t id none k = some c) : t k = some c := by
  simp only [setTab] at h; split at h
  · simp at h
  · exact h

theorem mem_eraseIdx {α : Type} (l : List α) (k : Nat) (x : α) (h : x ∈ l.eraseIdx k) : x ∈ l :=
  List.mem_of_mem_eraseIdx h

theorem step_inv (cfg : Cfg) (hnb : cfg.nonceBase = true) {s : Net} (hI : Inv s) (e : Ev) : Inv (step cfg s e) := by
  cases e <;> simp only [step]
  case request a b dial =>
    have h0 := hI.newReq a b
    have hi : s.nreq < (newReq s a b).nreq := by simp
    have hn : ((newReq s a b).reqs s.nreq).nonce = none := by simp [newReq_reqs]
    split
    · rename_i c hc
      exact h0.hand cfg hnb _ c (by simpa using hI.outLt a b c hc) hi hn
    · split
      · exact h0.failReq _
      · split
        · exact h0.failReq _
        · have h1 := h0.openConn cfg a b ‹Nat›
          have h2 := h1.hand cfg hnb s.nreq s.nconn (by simp) (by simpa using hi) (by simpa using hn)
          split
          · exact h2.retAtD cfg _
          · exact h2
  case deliverReq c =>
    split
    · split
      · exact hI
      · rename_i ν g rest hq
        have h1 : Inv (s.setConn c (fun x => { x with reqQ := rest })) :=
          hI.setConn_shrink c _ rfl (fun _ h => h) (fun e h => by rw [hq]; exact List.mem_cons_of_mem _ h) (fun _ h => h)
        split
        · -- the application of the accepting node now holds the message
          refine hI.frame (by simp) (by intro i ν _; simp) (by simp) (by simp) ?_ ?_ ?_ ?_ ?_ ?_
          · intro e _; simp only [setNode_conns]; rw [setConn_conns]; split <;> exact Nat.le_refl _
          · intro e x h; simp only [setNode_conns] at h; rw [setConn_conns] at h; split at h <;> exact h
          · intro e x h; simp only [setNode_conns] at h; rw [setConn_conns] at h; split at h
            · rename_i h'; subst h'; rw [hq]; exact List.mem_cons_of_mem _ h
            · exact h
          · intro n x hx; rw [setNode_nodes] at hx; simp only [setConn_nodes] at hx; split at hx
            · simp only [List.mem_append, List.mem_singleton] at hx
              rcases hx with hx | hx
              · left; rename_i h'; subst h'; exact hx
              · right; subst hx; exact ⟨c, by rw [hq]; exact List.mem_cons_self⟩
            · left; exact hx
          · intro e x h; left; simp only [setNode_conns] at h; rw [setConn_conns] at h; split at h <;> exact h
          · intro n k c' h; rw [setNode_nodes] at h; simp only [setConn_nodes] at h; split at h
            · rename_i h'; subst h'; exact h
            · exact h
        · exact h1
    · exact hI
  case appReply b k =>
    split
    · exact hI
    · rename_i hd hk
      have hmem : hd ∈ (s.nodes b).held := List.mem_of_getElem? hk
      have h1 : Inv (s.setNode b (fun n => { n with held := n.held.eraseIdx k })) :=
        hI.setNode_shrink b _ (fun x hx => mem_eraseIdx _ _ _ hx) (fun _ _ h => h)
      split
      · exact h1
      · rename_i c' _
        split
        · exact h1
        · refine hI.frame (by simp) (by intro i ν _; simp) (by simp) (by simp) ?_ ?_ ?_ ?_ ?_ ?_
          · intro e _; rw [setConn_conns]; simp only [setNode_conns]; split <;> exact Nat.le_refl _
          · intro e x h; rw [setConn_conns] at h; simp only [setNode_conns] at h; split at h <;> exact h
          · intro e x h; rw [setConn_conns] at h; simp only [setNode_conns] at h; split at h <;> exact h
          · intro n x hx; left; simp only [setConn_nodes] at hx; rw [setNode_nodes] at hx; split at hx
            · rename_i h'; subst h'; exact mem_eraseIdx _ _ _ hx
            · exact hx
          · intro e x h; rw [setConn_conns] at h; simp only [setNode_conns] at h; split at h
            · simp only [List.mem_append, List.mem_singleton] at h
              rcases h with h | h
              · left; rename_i h'; subst h'; exact h
              · right; exact ⟨b, hd, hmem, h⟩
            · left; exact h
          · intro n k' c'' h; simp only [setConn_nodes] at h; rw [setNode_nodes] at h; split at h
            · rename_i h'; subst h'; exact h
            · exact h
  case deliverReply c =>
    split
    · split
      · exact hI
      · rename_i ν m rest hq
        have h1 : Inv (s.setConn c (fun x => { x with repQ := rest })) :=
          hI.setConn_shrink c _ rfl (fun _ h => h) (fun _ h => h) (fun e h => by rw [hq]; exact List.mem_cons_of_mem _ h)
        split
        · exact h1
        · split
          · exact h1
          · rename_i i _
            have h2 : Inv ((s.setConn c (fun x => { x with repQ := rest })).setConn c (fun x => { x with pend := eraseN x.pend ν })) :=
              h1.setConn_shrink c _ rfl (fun e h => (List.mem_filter.mp h).1) (fun _ h => h) (fun _ h => h)
            split
            · exact h2.setReqs _ (by intro j; simp only [setReq_reqs, setConn_reqs]; split <;> exact ⟨rfl, rfl⟩)
            · exact h2
    · exact hI
  case cut c =>
    split
    · have h1 : Inv (s.setConn c (fun x => { x with up := false, reqQ := [], repQ := [] })) :=
        hI.setConn_shrink c _ rfl (fun _ h => h) (fun e h => by simp at h) (fun e h => by simp at h)
      exact (h1.retAtD cfg c).retAtA cfg c
    · exact hI
  case reject c atD =>
    split
    · split
      · split
        · exact hI
        · exact hI.retAtD cfg c
      · split
        · exact hI
        · exact hI.retAtA cfg c
    · exact hI
  case close c atD =>
    split
    · split
      · split
        · exact hI
        · have h1 : Inv { s with reqs := failAll (s.conns c).pend s.reqs } :=
            hI.setReqs _ (fun i => ⟨(failAll_nonce _ _ i).1, (failAll_nonce _ _ i).2.1⟩)
          have h2 : Inv (({ s with reqs := failAll (s.conns c).pend s.reqs } : Net).setConn c (fun x => { x with clD := true, pend := [] })) :=
            h1.setConn_shrink c _ rfl (fun e h => by simp at h) (fun _ h => h) (fun _ h => h)
          exact h2.retAtD cfg c
      · split
        · exact hI
        · have h1 : Inv (s.setConn c (fun x => { x with clA := true })) :=
            hI.setConn_shrink c _ rfl (fun _ h => h) (fun _ h => h) (fun _ h => h)
          exact h1.retAtA cfg c
    · exact hI
  case procRm n k =>
    split
    · exact hI
    · rename_i isCall id _
      apply hI.setNode_shrink n
      · intro x hx; split at hx <;> exact hx
      · intro k' c' h; split at h
        · exact setTab_none_sub _ _ _ _ h
        · exact h
  case disconnect a b =>
    exact hI.setNode_shrink a _ (fun _ h => h) (fun k c h => setTab_none_sub _ _ _ _ h)
  case expire i =>
    split
    · exact hI.setReqs _ (by intro j; simp only [setReq_reqs]; split <;> exact ⟨rfl, rfl⟩)
    · exact hI
  case reset n =>
    refine hI.frame ?_ ?_ (Nat.le_refl _) (Nat.le_refl _) ?_ ?_ ?_ ?_ ?_ ?_
    · intro i; simp only []; split <;> rfl
    · intro i ν _; simp only []; split <;> rfl
    · intro e _; simp only []; split <;> exact Nat.le_refl _
    · intro e x h; simp only [] at h; split at h
      · simp only [] at h; split at h
        · simp at h
        · exact h
      · exact h
    · intro e x h; simp only [] at h; split at h
      · simp at h
      · exact h
    · intro m x hx; left; simp only [] at hx; split at hx
      · simp at hx
      · exact hx
    · intro e x h; left; simp only [] at h; split at h
      · simp at h
      · exact h
    · intro m k c h; simp only [] at h; split at h
      · simp at h
      · exact h

theorem run_inv (cfg : Cfg) (hnb : cfg.nonceBase = true) {s : Net} (hI : Inv s) (evs : List Ev) : Inv (run cfg s evs) := by
  induction evs generalizing s with
  | nil => exact hI
  | cons e es ih => exact ih (step_inv cfg hnb hI e)

end Dos.ConnTable

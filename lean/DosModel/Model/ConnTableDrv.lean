/-
Line-protocol driver for the connection-history cases (`hist …`) of C17 (go/props/c17):
one real node N (model node 0) and peers 1 … (real nodes or harness endpoints), driven one
step at a time; every frame put in flight by a step is delivered before the next step, every
reported removal is taken before the next step (the harness waits for both).
Core Lean only.
-/
import DosModel.Model.ConnTable

namespace Dos.ConnTable
open Dos

/-- connections between nodes `a` and `b` (either direction), in creation order -/
def pairConns (s : Net) (a b : Nat) : List Nat :=
  (List.range s.nconn).filter fun c =>
    let x := s.conns c
    (x.d = a ∧ x.a = b) ∨ (x.d = b ∧ x.a = a)

def connsOf (s : Net) (n : Nat) : List Nat :=
  (List.range s.nconn).filter fun c => (s.conns c).d = n ∨ (s.conns c).a = n

/-- take every reported removal of node `n` -/
def drain (cfg : Cfg) (s : Net) (n : Nat) : Net :=
  (List.range (s.nodes n).rm.length).foldl (fun s _ => step cfg s (.procRm n 0)) s

def drainAll (cfg : Cfg) (s : Net) (np : Nat) : Net :=
  (List.range (np + 1)).foldl (drain cfg) s

/-- deliver every frame in flight (requests first, then replies), oldest first -/
def flush (cfg : Cfg) (s : Net) : Net :=
  let s1 := (List.range s.nconn).foldl (fun s c =>
    (List.range (s.conns c).reqQ.length).foldl (fun s _ => step cfg s (.deliverReq c)) s) s
  (List.range s1.nconn).foldl (fun s c =>
    (List.range (s.conns c).repQ.length).foldl (fun s _ => step cfg s (.deliverReply c)) s) s1

structure HSt where
  net  : Net
  seen : List (Nat × String) := []    -- request ↦ where the peer's application saw it

def heldIdx (s : Net) (n g : Nat) : Option Nat :=
  let h := (s.nodes n).held
  (List.range h.length).find? fun k => match h[k]? with
    | some x => x.g == g
    | none => false

/-- after a request event: note whether (and for a harness endpoint on which connection of the
pair) the destination's application got the message -/
def noteSeen (st : HSt) (i : Nat) : HSt :=
  let s := st.net
  let r := s.reqs i
  match heldIdx s r.dst i with
  | none => { st with seen := st.seen ++ [(i, "-")] }
  | some k =>
    match (s.nodes r.dst).held[k]? with
    | none => st
    | some h =>
      if s.ideal r.dst then
        let idx := (pairConns s r.src r.dst).findIdx (· == h.conn)
        { st with seen := st.seen ++ [(i, toString idx)] }
      else { st with seen := st.seen ++ [(i, "y")] }

def requestStep (cfg : Cfg) (st : HSt) (a b : Nat) : HSt :=
  let i := st.net.nreq
  let s1 := flush cfg (step cfg st.net (.request a b (some b)))
  noteSeen { st with net := s1 } i

def natArgs (s : String) : Option (List Nat) := (s.splitOn ".").mapM String.toNat?

def cutAllOf (cfg : Cfg) (s : Net) (n : Nat) : Net :=
  (connsOf s n).foldl (fun s c => step cfg s (.cut c)) s

def histStep (cfg : Cfg) (np : Nat) (st : HSt) (op : String) : Option HSt :=
  let kind := (op.take 1).toString
  let rest := (op.drop 1).toString
  let s := st.net
  match kind, natArgs rest with
  | "q", some [p] => if p < np then some (requestStep cfg st 0 (p + 1)) else none
  | "u", some [p] => if p < np then some (requestStep cfg st (p + 1) 0) else none
  | "a", some [g] =>
    if g < s.nreq then
      match heldIdx s (s.reqs g).dst g with
      | none => some st
      | some k => some { st with net := flush cfg (step cfg s (.appReply (s.reqs g).dst k)) }
    else none
  | "k", some [p] => if p < np then some { st with net := step cfg s (.disconnect 0 (p + 1)) } else none
  | "K", some [p] => if p < np then some { st with net := step cfg s (.disconnect (p + 1) 0) } else none
  | "c", some [p, j] =>
    match (pairConns s 0 (p + 1))[j]? with
    | some c => some { st with net := drainAll cfg (step cfg s (.cut c)) np }
    | none => some st
  | "z", some [p, j, side] =>
    match (pairConns s 0 (p + 1))[j]? with
    | some c =>
      -- side 0: the frame is rejected at N's end, 1: at the peer's end
      let atD : Bool := if (s.conns c).d = 0 then side == 0 else side != 0
      some { st with net := drainAll cfg (step cfg s (.reject c atD)) np }
    | none => some st
  | "x", some [p] =>
    if p < np then some { st with net := drainAll cfg (step cfg (cutAllOf cfg s (p + 1)) (.reset (p + 1))) np } else none
  | "X", _ => some { st with net := drainAll cfg (step cfg (cutAllOf cfg s 0) (.reset 0)) np }
  | "e", some [g] => some { st with net := step cfg s (.expire g) }
  | _, _ => none

def showOutcome (i : Nat) : Outcome → String
  | .waiting => "hang"
  | .err => "err"
  | .got m => if m = i then "ok" else s!"wrong:{m}"

def joinC (l : List String) : String := if l.isEmpty then "-" else String.intercalate "," l

/-- `hist <peers> <steps>`: peers `f` harness endpoint / `r` real node, steps see go/props/c17 -/
def stepHist (cfg : Cfg) (peers steps : String) : String :=
  let kinds := peers.splitOn ","
  if kinds.any (fun k => k != "f" && k != "r") then "bad-op" else
  let np := kinds.length
  let ideal : Nat → Bool := fun n => n ≥ 1 ∧ kinds.getD (n - 1) "r" == "f"
  let ops := if steps == "-" then [] else steps.splitOn ","
  -- after every step the harness waits until what the step caused has happened: frames delivered, removals taken
  let settle := fun (st : HSt) => { st with net := drainAll cfg (flush cfg st.net) np }
  match ops.foldl (fun (acc : Option HSt) op => acc.bind fun st => (histStep cfg np st op).map settle) (some { net := init ideal }) with
  | none => "bad-op"
  | some st =>
    let n0 := st.net.nreq
    -- every call still waiting runs into its deadline
    let s1 := (List.range n0).foldl (fun s i => step cfg s (.expire i)) st.net
    -- then every connection ends, every removal is taken, and each peer is asked once more, each way
    let s2 := drainAll cfg ((List.range s1.nconn).foldl (fun s c => step cfg s (.cut c)) s1) np
    let probe := fun (s : Net) (a b : Nat) =>
      let i := s.nreq
      let t1 := drainAll cfg (flush cfg (step cfg s (.request a b (some b)))) np
      let t2 := match heldIdx t1 b i with
        | some k => flush cfg (step cfg t1 (.appReply b k))
        | none => t1
      (step cfg t2 (.expire i), showOutcome i ((step cfg t2 (.expire i)).reqs i).out)
    let (s3, fw) := (List.range np).foldl (fun (acc : Net × List String) p =>
      let (s', o) := probe acc.1 0 (p + 1); (s', acc.2 ++ [o])) (s2, [])
    let (_, bw) := (List.range np).foldl (fun (acc : Net × List String) p =>
      let (s', o) := probe acc.1 (p + 1) 0; (s', acc.2 ++ [o])) (s3, [])
    let res := (List.range n0).map fun i => showOutcome i (s1.reqs i).out
    let seen := (List.range n0).map fun i => match st.seen.find? (fun e => e.1 == i) with
      | some e => e.2
      | none => "-"
    let nc := (List.range np).map fun p => toString (pairConns s1 0 (p + 1)).length
    s!"res={joinC res} at={joinC seen} conns={joinC nc} probes={joinC fw} rprobes={joinC bw}"

end Dos.ConnTable

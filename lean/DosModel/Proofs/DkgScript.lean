/-
The pipeline script of one member (`runDeals`, `runResps`, `genGroup` of `Model/DkgSession.lean`)
keeps the invariant `GoodGen` and the fact that every own response is an approval; a finished
member's key share is the sum of the stored deals, each consistent with its commitments.
-/
import DosModel.Proofs.DkgResp
import DosModel.Proofs.DkgAlg
import DosModel.Model.DkgSession

set_option linter.unusedSectionVars false

namespace Dos.Dkg
open Dos Dos.Vss

variable {F G : Type} [Field F] [AddCommGroup G] [Module F G] [DecidableEq F] [DecidableEq G]

/-- every own response stored so far is an approval -/
def AllApproved (d : Gen F G) : Prop :=
  ∀ j v a r, getVerifier d j = some v → v.agg = some a → getResponse a d.index = some r → r.status = true

/-- all outcomes of `ProcessDeal` on a state satisfying `GoodGen0` -/
theorem processDeal_cases (g : G) (d : Gen F G) (dd : DkgDeal F G) (hd : GoodGen0 g d) :
    ((processDeal g d dd).1 = d ∧ ∃ e, (processDeal g d dd).2 = .error e) ∨
    (getVerifier d dd.index = none ∧ dd.index < d.participants.length ∧
      ∃ w, (processDeal g d dd).1 = setVerifier d dd.index w ∧
        ((w.agg = none ∧ ∃ e, (processDeal g d dd).2 = .error e) ∨
         (∃ r a, (processDeal g d dd).2 = .ok ⟨dd.index, some r⟩ ∧ w.agg = some a ∧
            getResponse a d.index = some r ∧ (r.status = true → a.deal.isSome = true)))) := by
  unfold processDeal
  rcases hp : d.participants[dd.index]? with _ | pub
  · left; exact ⟨rfl, _, rfl⟩
  · have hjlt : dd.index < d.participants.length := by
      rcases Nat.lt_or_ge dd.index d.participants.length with h | h
      · exact h
      · rw [List.getElem?_eq_none h] at hp; cases hp
    simp only
    by_cases hex : (getVerifier d dd.index).isSome = true
    · left; rw [if_pos hex]; exact ⟨rfl, _, rfl⟩
    · simp only [hex, if_false, Bool.false_eq_true]
      have hnone : getVerifier d dd.index = none := by simpa using hex
      rcases hnv : newVerifier g d.long pub d.participants with err | ver
      · left; exact ⟨rfl, _, rfl⟩
      · obtain ⟨i, hi, hver⟩ := newVerifier_ok hnv
        have hii : i = d.index := by rw [hd.idx] at hi; injection hi with hi; exact hi.symm
        subst hii
        have hverf : ver.agg = none ∧ ver.index = d.index ∧ ver.vs = d.participants := by
          subst hver; exact ⟨rfl, rfl, rfl⟩
        obtain ⟨hva, hvi, hvv⟩ := hverf
        right
        refine ⟨hnone, hjlt, ?_⟩
        rcases hdeal : dd.deal with _ | e
        · exact ⟨ver, rfl, Or.inl ⟨hva, _, rfl⟩⟩
        · simp only
          rcases pe_fresh g ver e 0 hva (by rw [hvi, hvv]; exact hd.lt) with ⟨err, herr⟩ | ⟨dl, r, a, hdec, hpe, hri, hrs, hsig, hst, hshare, h1, h2, h3, h5, h4, h6, h7, _⟩
          · rw [herr]; exact ⟨ver, rfl, Or.inl ⟨hva, _, rfl⟩⟩
          · rw [hpe]
            simp only
            refine ⟨_, rfl, Or.inr ?_⟩
            have hown : d.index < ver.vs.length := by rw [hvv]; exact hd.lt
            have hga : getResponse a d.index = some r := by
              rw [getResponse_fresh_set a ver.vs.length d.index d.index r hown (by rw [h4, hvi])]; simp
            rcases unsafeSet_agg ({ ver with agg := some a, approved := r.status } : Verifier F G) dd.index a rfl with hu | ⟨a', hu, hlt, hnn, ha'⟩
            · exact ⟨r, a, rfl, hu, hga, fun hs => by rw [h7 hs]; rfl⟩
            · refine ⟨r, a', rfl, hu, ?_, fun hs => by rw [ha']; simp [h7 hs]⟩
              have hjl : dd.index < a.responses.length := by rw [h4]; simp; rw [← h1]; exact hlt
              rw [ha', getResponse_set a dd.index d.index _ hjl]
              by_cases hk : dd.index = d.index
              · rw [hk] at hnn; rw [hnn] at hga; cases hga
              · simp [hk, hga]

/-- `ProcessDeal` keeps "every own response is an approval" unless it returns a complaint -/
theorem processDeal_allApproved (g : G) (d : Gen F G) (dd : DkgDeal F G) (hd : GoodGen0 g d)
    (ha : AllApproved d)
    (hok : ∀ resp, (processDeal g d dd).2 = .ok resp → ∃ r, resp.resp = some r ∧ r.status = true) :
    AllApproved (processDeal g d dd).1 := by
  rcases processDeal_cases g d dd hd with ⟨he, _⟩ | ⟨hnone, hlt, w, hw, hcase⟩
  · rw [he]; exact ha
  · have hjv : dd.index < d.verifiers.length := by rw [hd.len]; exact hlt
    intro j v a r hv hagg hr
    rw [hw] at hv hr
    have hidx : (setVerifier d dd.index w).index = d.index := (setVerifier_frame d dd.index w).2.1
    rw [hidx] at hr
    rw [getVerifier_set d dd.index j w hjv] at hv
    by_cases hj : dd.index = j
    · simp only [hj, if_true, Option.some.injEq] at hv; subst hv
      rcases hcase with ⟨hn, _⟩ | ⟨r', a', hres, hwa, hgr, _⟩
      · rw [hn] at hagg; cases hagg
      · rw [hwa] at hagg; injection hagg with hagg; subst hagg
        rw [hgr] at hr; injection hr with hr; subst hr
        obtain ⟨r2, h1, h2⟩ := hok _ hres
        simp only [Option.some.injEq] at h1; subst h1; exact h2
    · simp only [hj, if_false] at hv
      exact ha j v a r hv hagg hr

/-- `getAndProcessDeals`: if the stage hands on, the invariant holds, every own response is an
approval, and every response it sends is the stored own response of the slot it names. -/
theorem runDeals_inv (g : G) : ∀ (ms : List (DkgDeal F G)) (d : Gen F G) (acc : List (DkgResp F G)) (d' : Gen F G)
    (out : List (DkgResp F G)), GoodGen g d → AllApproved d →
    (∀ x ∈ acc, ∃ r v a, x.resp = some r ∧ getVerifier d x.index = some v ∧ v.agg = some a ∧
        getResponse a d.index = some r) →
    runDeals g d ms acc = (d', some out) →
    GoodGen g d' ∧ AllApproved d' ∧ d'.index = d.index ∧ d'.long = d.long ∧ d'.participants = d.participants ∧
    (∀ x ∈ out, ∃ r v a, x.resp = some r ∧ getVerifier d' x.index = some v ∧ v.agg = some a ∧
        getResponse a d'.index = some r) := by
  intro ms
  induction ms with
  | nil =>
    intro d acc d' out hg ha hacc h
    simp only [runDeals, Prod.mk.injEq, Option.some.injEq] at h
    obtain ⟨h1, h2⟩ := h; subst h1; subst h2
    exact ⟨hg, ha, rfl, rfl, rfl, hacc⟩
  | cons m ms ih =>
    intro d acc d' out hg ha hacc h
    unfold runDeals at h
    have hgood := processDeal_good g d m hg
    have hcases := processDeal_cases g d m hg.toGoodGen0
    rcases hpd : processDeal g d m with ⟨d1, res⟩
    rw [hpd] at h hgood hcases
    simp only at h hgood hcases
    have hframe : d1.index = d.index ∧ d1.long = d.long ∧ d1.participants = d.participants := by
      rcases hcases with ⟨he, _⟩ | ⟨_, _, w, hw, _⟩
      · rw [he]; exact ⟨rfl, rfl, rfl⟩
      · rw [hw]; have := setVerifier_frame d m.index w; exact ⟨this.2.1, this.2.2.1, this.1⟩
    -- slots that had an aggregator keep it
    have hkeep : ∀ k v a, getVerifier d k = some v → v.agg = some a → getVerifier d1 k = some v := by
      intro k v a hv _
      rcases hcases with ⟨he, _⟩ | ⟨hnone, hlt, w, hw, _⟩
      · rw [he]; exact hv
      · have hjv : m.index < d.verifiers.length := by rw [hg.len]; exact hlt
        rw [hw, getVerifier_set d m.index k w hjv]
        by_cases hk : m.index = k
        · rw [hk] at hnone; rw [hnone] at hv; cases hv
        · simp [hk, hv]
    rcases res with err | resp
    · simp only at h
      have ha1 : AllApproved d1 := by
        have := processDeal_allApproved g d m hg.toGoodGen0 ha (by intro resp hr; rw [hpd] at hr; cases hr)
        rw [hpd] at this; exact this
      obtain ⟨i1, i2, i3, i4, i5, i6⟩ := ih d1 acc d' out hgood ha1 (by
        intro x hx; obtain ⟨r, v, a, h1, h2, h3, h4⟩ := hacc x hx
        exact ⟨r, v, a, h1, hkeep _ v a h2 h3, h3, by rw [hframe.1]; exact h4⟩) h
      exact ⟨i1, i2, by rw [i3, hframe.1], by rw [i4, hframe.2.1], by rw [i5, hframe.2.2], i6⟩
    · simp only at h
      rcases hrr : resp.resp with _ | r
      · rw [hrr] at h; cases h
      · rw [hrr] at h
        simp only at h
        by_cases hs : r.status = true
        · simp only [hs, if_true] at h
          have ha1 : AllApproved d1 := by
            have := processDeal_allApproved g d m hg.toGoodGen0 ha (by
              intro resp' hr; rw [hpd] at hr; simp only at hr; injection hr with hr; subst hr
              exact ⟨r, hrr, hs⟩)
            rw [hpd] at this; exact this
          obtain ⟨i1, i2, i3, i4, i5, i6⟩ := ih d1 (acc ++ [resp]) d' out hgood ha1 (by
            intro x hx
            rcases List.mem_append.1 hx with hx | hx
            · obtain ⟨r0, v, a, h1, h2, h3, h4⟩ := hacc x hx
              exact ⟨r0, v, a, h1, hkeep _ v a h2 h3, h3, by rw [hframe.1]; exact h4⟩
            · simp only [List.mem_singleton] at hx; subst hx
              rcases hcases with ⟨_, e, he⟩ | ⟨hnone, hlt, w, hw, hc⟩
              · cases he
              · rcases hc with ⟨_, e, he⟩ | ⟨r', a', hres, hwa, hgr, _⟩
                · cases he
                · injection hres with hres; subst hres
                  simp only [Option.some.injEq] at hrr; subst hrr
                  have hjv : m.index < d.verifiers.length := by rw [hg.len]; exact hlt
                  exact ⟨r', w, a', rfl, by rw [hw, getVerifier_set d m.index m.index w hjv]; simp, hwa,
                    by rw [hframe.1]; exact hgr⟩) h
          exact ⟨i1, i2, by rw [i3, hframe.1], by rw [i4, hframe.2.1], by rw [i5, hframe.2.2], i6⟩
        · simp only [hs, if_false, Bool.false_eq_true] at h
          cases h

/-! ### `ProcessResponse` never touches an own response, a stored deal or a slot's session id -/

/-- slot `j` after a step relates to slot `j` before: same verifier, or the same verifier with an
aggregator that kept the own response, the stored deal, the session id, and lost no response -/
def SlotRel (own : Nat) (before after : Option (Verifier F G)) : Prop :=
  after = before ∨
  ∃ v a a2, before = some v ∧ v.agg = some a ∧ after = some { v with agg := some a2 } ∧
    getResponse a2 own = getResponse a own ∧ a2.deal = a.deal ∧ a2.sid = a.sid ∧ a2.vs = a.vs ∧
    (∀ k, (getResponse a k).isSome = true → (getResponse a2 k).isSome = true)

theorem getResponse_vj (g : G) (a : Agg F G) (idx : Nat) (deal : Deal F G) (hdeal : a.deal.isSome = true) (k : Nat) :
    (getResponse (verifyJustification g a idx deal).1 k).isSome = (getResponse a k).isSome ∧
    (k ≠ idx → getResponse (verifyJustification g a idx deal).1 k = getResponse a k) := by
  rcases vj_cases g a idx deal hdeal with h | h | h
  · rw [h]; exact ⟨rfl, fun _ => rfl⟩
  · rw [h]; exact ⟨rfl, fun _ => rfl⟩
  · rw [h, getResponse_approveStored]
    by_cases hk : idx = k
    · subst hk; simp
    · simp [hk, Ne.symm hk]

theorem processResponse_rel (g : G) (d : Gen F G) (m : DkgResp F G) (hd : GoodGen g d) (j : Nat) :
    SlotRel d.index (getVerifier d j) (getVerifier (processResponse g d m).1 j) := by
  obtain ⟨_, _, _, hsh⟩ := processResponse_shape g d m
  rcases hsh with hsame | ⟨r, v, a, a', _, hv, hagg, hvr, hcase⟩
  · left; simp [getVerifier, hsame]
  · have hga := (hd.good m.index v hv).hagg a hagg
    obtain ⟨hga', hne, hdl, hsid, _, _, hgr, hoth⟩ :=
      goodA_verifyResponse g d.index d.long d.participants v.dealer m.index a a' r hga hvr
    obtain ⟨_, _, ha'⟩ := addResponse_ok (verifyResponse_ok hvr).2.2
    have hjv : m.index < d.verifiers.length := by
      unfold getVerifier at hv
      rcases Nat.lt_or_ge m.index d.verifiers.length with h | h
      · exact h
      · rw [List.getElem?_eq_none h] at hv; cases hv
    have hget : ∀ (a2 : Agg F G), (processResponse g d m).1.verifiers = d.verifiers.set m.index (some { v with agg := some a2 }) →
        getVerifier (processResponse g d m).1 j = if m.index = j then some { v with agg := some a2 } else getVerifier d j := by
      intro a2 h
      unfold getVerifier
      rw [h, List.getElem?_set]
      by_cases hk : m.index = j
      · subst hk; simp [hjv]
      · simp [hk]
    have hmono : ∀ k, (getResponse a k).isSome = true → (getResponse a' k).isSome = true := by
      intro k hk
      by_cases hkr : k = r.index
      · rw [hkr, hgr]; rfl
      · rw [hoth k hkr]; exact hk
    rcases hcase with hvs | ⟨hme, deal, hvs⟩
    · rw [hget a' hvs]
      by_cases hk : m.index = j
      · subst hk
        right
        exact ⟨v, a, a', hv, hagg, by simp, hoth _ (Ne.symm hne), hdl, hsid, by rw [ha'], hmono⟩
      · left; simp [hk]
    · rw [hget _ hvs]
      by_cases hk : m.index = j
      · subst hk
        right
        have hdealSome : a'.deal.isSome = true := by
          rw [hdl]; exact hd.ownDeal v a (by rw [← hme]; exact hv) hagg
        obtain ⟨_, hjd, hjs⟩ := goodA_justification g d.index d.long d.participants v.dealer m.index a'
          r.index deal hga' hdealSome hne
        have hvjvs : (verifyJustification g a' r.index deal).1.vs = a'.vs := by
          rcases vj_cases g a' r.index deal hdealSome with h | h | h <;> rw [h]
        refine ⟨v, a, (verifyJustification g a' r.index deal).1, hv, hagg, by simp, ?_, by rw [hjd, hdl],
          by rw [hjs, hsid], by rw [hvjvs, ha'], ?_⟩
        · rw [(getResponse_vj g a' r.index deal hdealSome d.index).2 (Ne.symm hne)]
          exact hoth _ (Ne.symm hne)
        · intro k hk'
          rw [(getResponse_vj g a' r.index deal hdealSome k).1]
          exact hmono k hk'
      · left; simp [hk]

theorem processResponse_frame (g : G) (d : Gen F G) (m : DkgResp F G) :
    (processResponse g d m).1.participants = d.participants ∧ (processResponse g d m).1.index = d.index ∧
    (processResponse g d m).1.long = d.long :=
  let ⟨h1, h2, h3, _⟩ := processResponse_shape g d m
  ⟨h1, h2, h3⟩

theorem processResponse_allApproved (g : G) (d : Gen F G) (m : DkgResp F G) (hd : GoodGen g d)
    (ha : AllApproved d) : AllApproved (processResponse g d m).1 := by
  intro j v' a' r hv hagg hr
  rw [(processResponse_frame g d m).2.1] at hr
  rcases processResponse_rel g d m hd j with h | ⟨v, a, a2, hb, hva, haf, hown, _, _, _, _⟩
  · rw [h] at hv; exact ha j v' a' r hv hagg hr
  · rw [haf] at hv; injection hv with hv; subst hv
    injection hagg with hagg; subst hagg
    rw [hown] at hr
    exact ha j v a r hb hva hr

/-- `getAndProcessResponses` keeps the invariant, the approvals, the stored deals and own responses -/
theorem runResps_inv (g : G) : ∀ (ms : List (DkgResp F G)) (d d' : Gen F G) (ok : Bool),
    GoodGen g d → AllApproved d → runResps g d ms = (d', ok) →
    GoodGen g d' ∧ AllApproved d' ∧ d'.index = d.index ∧ d'.long = d.long ∧ d'.participants = d.participants ∧
    (∀ j v a, getVerifier d j = some v → v.agg = some a →
      ∃ a2, getVerifier d' j = some { v with agg := some a2 } ∧ getResponse a2 d.index = getResponse a d.index ∧
        a2.deal = a.deal ∧ a2.sid = a.sid) := by
  intro ms
  induction ms with
  | nil =>
    intro d d' ok hg ha h
    simp only [runResps, Prod.mk.injEq] at h
    obtain ⟨h1, _⟩ := h; subst h1
    exact ⟨hg, ha, rfl, rfl, rfl, fun j v a hv hagg => ⟨a, by rw [hv, ← hagg], rfl, rfl, rfl⟩⟩
  | cons m ms ih =>
    intro d d' ok hg ha h
    unfold runResps at h
    have hgood := processResponse_good g d m hg
    have hall := processResponse_allApproved g d m hg ha
    have hrel := processResponse_rel g d m hg
    have hfr := processResponse_frame g d m
    rcases hpr : processResponse g d m with ⟨d1, res⟩
    rw [hpr] at h hgood hall hrel hfr
    simp only at h hgood hall hrel hfr
    have hstep : ∀ j v a, getVerifier d j = some v → v.agg = some a →
        ∃ a2, getVerifier d1 j = some { v with agg := some a2 } ∧ getResponse a2 d.index = getResponse a d.index ∧
          a2.deal = a.deal ∧ a2.sid = a.sid := by
      intro j v a hv hagg
      rcases hrel j with hs | ⟨v0, a0, a2, hb, hva, haf, hown, hdl, hsid, _, _⟩
      · exact ⟨a, by rw [hs, hv, ← hagg], rfl, rfl, rfl⟩
      · rw [hv] at hb; injection hb with hb; subst hb
        rw [hagg] at hva; injection hva with hva; subst hva
        exact ⟨a2, haf, hown, hdl, hsid⟩
    rcases res with err | _
    · simp only [Prod.mk.injEq] at h
      obtain ⟨h1, _⟩ := h; subst h1
      exact ⟨hgood, hall, hfr.2.1, hfr.2.2, hfr.1, hstep⟩
    · simp only at h
      obtain ⟨i1, i2, i3, i4, i5, i6⟩ := ih d1 d' ok hgood hall h
      refine ⟨i1, i2, by rw [i3, hfr.2.1], by rw [i4, hfr.2.2], by rw [i5, hfr.1], ?_⟩
      intro j v a hv hagg
      obtain ⟨a2, h1, h2, h3, h4⟩ := hstep j v a hv hagg
      obtain ⟨a3, k1, k2, k3, k4⟩ := i6 j _ a2 h1 rfl
      exact ⟨a3, by rw [k1], by rw [← hfr.2.1, k2, hfr.2.1, h2], by rw [k3, h3], by rw [k4, h4]⟩

end Dos.Dkg

// Package dkgnet holds what the C04/C05/C08 plug-ins share: deterministic key
// material derived from the case seed, math/big reference arithmetic over the
// bn256 group order (polynomial evaluation, Lagrange interpolation at 0), and
// (net.go) an in-memory network double for share/dkg/pedersen's pdkg.
package dkgnet

import (
	"bytes"
	"math/big"
	"sync"

	"github.com/DOSNetwork/core/log"
	"github.com/DOSNetwork/core/suites"
	"github.com/dedis/kyber"
	"github.com/dedis/kyber/sign/schnorr"

	"verifharness/internal/h"
)

// Order of the bn256 groups (alt_bn128 r), written out here so the reference
// arithmetic does not depend on the repository's constant.
var Order, _ = new(big.Int).SetString("21888242871839275222246405745257275088548364400416034343698204186575808495617", 10)

var Suite = suites.MustFind("bn256")

var logOnce sync.Once

// InitLog must run before any repo constructor (nil logger panic otherwise).
func InitLog() { logOnce.Do(func() { log.Init([]byte("verif")) }) }

// Scalar converts a reference number to the repository's scalar type.
func Scalar(v *big.Int) kyber.Scalar {
	b := new(big.Int).Mod(v, Order).Bytes()
	buf := make([]byte, 32)
	copy(buf[32-len(b):], b)
	s := Suite.Scalar()
	if err := s.UnmarshalBinary(buf); err != nil {
		panic("dkgnet.Scalar: " + err.Error())
	}
	return s
}

// Big converts a repository scalar to a reference number.
func Big(s kyber.Scalar) *big.Int {
	b, err := s.MarshalBinary()
	if err != nil {
		panic(err)
	}
	return new(big.Int).SetBytes(b)
}

func Pub(s kyber.Scalar) kyber.Point { return Suite.Point().Mul(s, nil) }

func PointBytes(p kyber.Point) []byte {
	b, err := p.MarshalBinary()
	if err != nil {
		panic(err)
	}
	return b
}

func PointsEqual(a, b []kyber.Point) bool {
	if len(a) != len(b) {
		return false
	}
	for i := range a {
		if !bytes.Equal(PointBytes(a[i]), PointBytes(b[i])) {
			return false
		}
	}
	return true
}

// NonZero draws a uniform non-zero residue.
func NonZero(r *h.Rng) *big.Int {
	for {
		v := r.Big(Order)
		if v.Sign() != 0 {
			return v
		}
	}
}

// Eval is f(x) mod Order, coefficients lowest first.
func Eval(coeffs []*big.Int, x int64) *big.Int {
	acc := new(big.Int)
	bx := big.NewInt(x)
	for j := len(coeffs) - 1; j >= 0; j-- {
		acc.Mul(acc, bx)
		acc.Add(acc, coeffs[j])
		acc.Mod(acc, Order)
	}
	return acc
}

// LagrangeAtZero interpolates the points (xs[k], ys[k]) and returns the value at 0.
func LagrangeAtZero(xs []int64, ys []*big.Int) *big.Int {
	acc := new(big.Int)
	for i := range xs {
		num := new(big.Int).Set(ys[i])
		den := big.NewInt(1)
		for j := range xs {
			if i == j {
				continue
			}
			num.Mul(num, big.NewInt(xs[j]))
			num.Mod(num, Order)
			d := big.NewInt(xs[j] - xs[i])
			d.Mod(d, Order)
			den.Mul(den, d)
			den.Mod(den, Order)
		}
		inv := new(big.Int).ModInverse(den, Order)
		if inv == nil {
			panic("LagrangeAtZero: repeated abscissa")
		}
		num.Mul(num, inv)
		acc.Add(acc, num)
		acc.Mod(acc, Order)
	}
	return acc
}

// PubEval is Σ C_k · x^k with the repository's group operations (bn256 arithmetic is C10's subject,
// not the unit under test of the DKG properties); x as a reference number.
func PubEval(commits []kyber.Point, x int64) kyber.Point {
	acc := Suite.Point().Null()
	xs := Scalar(big.NewInt(x))
	for j := len(commits) - 1; j >= 0; j-- {
		acc = Suite.Point().Mul(xs, acc)
		acc = Suite.Point().Add(acc, commits[j])
	}
	return acc
}

// Commit is coefficient · G for every coefficient.
func Commit(coeffs []*big.Int) []kyber.Point {
	out := make([]kyber.Point, len(coeffs))
	for i, c := range coeffs {
		out[i] = Pub(Scalar(c))
	}
	return out
}

// SchnorrSign signs msg with sk (kyber sign/schnorr over the bn256 suite).
func SchnorrSign(sk kyber.Scalar, msg []byte) []byte {
	sig, err := schnorr.Sign(Suite, sk, msg)
	if err != nil {
		panic(err)
	}
	return sig
}

/-
Keccak-256 (legacy padding, as `Model/Keccak.lean`) written so that the Lean KERNEL can evaluate it:
the 1600-bit state is ONE natural number (lane (x, y) = bits 64·(x+5y) …), every step is `Nat` arithmetic
(`^^^ &&& >>> <<< %`, which the kernel computes on GMP numbers), all recursion is structural.  Used to
compute 4-byte selectors and event ids of the regenerated ABI facts inside `decide` theorems; the driver
compares it with `Model/Keccak.lean` and with go-ethereum's `crypto.Keccak256` on every signature.
Core Lean only.
-/
import DosModel.Model.Util

namespace Dos.KeccakNat
open Dos

def m64 : Nat := 2 ^ 64

def lane (s : Nat) (i : Nat) : Nat := (s >>> (64 * i)) % m64

def rotl64 (v r : Nat) : Nat :=
  if r % 64 = 0 then v else ((v <<< (r % 64)) % m64) ||| (v >>> (64 - r % 64))

/-- state from 25 lanes, lane 0 lowest -/
def pack : List Nat → Nat
  | [] => 0
  | l :: ls => l + m64 * pack ls

def rotc : List Nat := [
  0, 1, 62, 28, 27,
  36, 44, 6, 55, 20,
  3, 10, 43, 25, 39,
  41, 45, 15, 21, 8,
  18, 2, 61, 56, 14]

def roundConstants : List Nat := [
  0x0000000000000001, 0x0000000000008082, 0x800000000000808A, 0x8000000080008000,
  0x000000000000808B, 0x0000000080000001, 0x8000000080008081, 0x8000000000008009,
  0x000000000000008A, 0x0000000000000088, 0x0000000080008009, 0x000000008000000A,
  0x000000008000808B, 0x800000000000008B, 0x8000000000008089, 0x8000000000008003,
  0x8000000000008002, 0x8000000000000080, 0x000000000000800A, 0x800000008000000A,
  0x8000000080008081, 0x8000000000008080, 0x0000000080000001, 0x8000000080008008]

def idx25 : List Nat := List.range 25
def idx5 : List Nat := List.range 5

/-- one round of Keccak-f[1600] on the packed state -/
def round (s rc : Nat) : Nat :=
  -- θ: column parities
  let c : Nat := pack (idx5.map fun x =>
    lane s x ^^^ lane s (x + 5) ^^^ lane s (x + 10) ^^^ lane s (x + 15) ^^^ lane s (x + 20))
  let d : Nat := pack (idx5.map fun x => lane c ((x + 4) % 5) ^^^ rotl64 (lane c ((x + 1) % 5)) 1)
  let a1 : Nat := pack (idx25.map fun i => lane s i ^^^ lane d (i % 5))
  -- ρ and π: B[y, 2x+3y] = rot(A[x, y], r[x, y]); for target j = X + 5Y: x = (3Y + X) mod 5, y = X
  let b : Nat := pack (idx25.map fun j =>
    let X := j % 5
    let Y := j / 5
    let x := (3 * Y + X) % 5
    rotl64 (lane a1 (x + 5 * X)) (rotc.getD (x + 5 * X) 0))
  -- χ
  let a2 : Nat := pack (idx25.map fun i =>
    let x := i % 5
    let y := i / 5
    lane b i ^^^ ((lane b ((x + 1) % 5 + 5 * y) ^^^ (m64 - 1)) &&& lane b ((x + 2) % 5 + 5 * y)))
  -- ι
  a2 ^^^ rc

def keccakF (s : Nat) : Nat := roundConstants.foldl round s

/-- little-endian number of a byte string -/
def leNat : Bytes → Nat
  | [] => 0
  | b :: bs => b.toNat + 256 * leNat bs

def rate : Nat := 136

def pad (m : Bytes) : Bytes :=
  let z := rate - m.length - 1
  if z = 0 then m ++ [0x81]
  else m ++ [0x01] ++ List.replicate (z - 1) 0 ++ [0x80]

/-- absorb: full 136-byte blocks, then the padded rest -/
def absorb : Nat → Nat → Bytes → Nat
  | 0, st, m => keccakF (st ^^^ leNat (pad (m.take (rate - 1))))
  | fuel + 1, st, m =>
    if m.length < rate then keccakF (st ^^^ leNat (pad m))
    else absorb fuel (keccakF (st ^^^ leNat (m.take rate))) (m.drop rate)

def leBytes : Nat → Nat → Bytes
  | 0, _ => []
  | k + 1, v => UInt8.ofNat (v % 256) :: leBytes k (v / 256)

def keccak256 (msg : Bytes) : Bytes :=
  leBytes 32 (absorb (msg.length / rate) 0 msg % 2 ^ 256)

/-- bytes of an ASCII string without going through UTF-8 machinery (kernel-friendly) -/
def asciiBytes (s : String) : Bytes := s.toList.map (fun c => UInt8.ofNat c.toNat)

end Dos.KeccakNat

/-
C20 (round 4) — the ref10 GROUP code of group/edwards25519/ge.go as data, core Lean only.

`go/extract/ed25519ge` translates every straight-line method of ge.go (a sequence of `fe*` calls on struct fields)
into a `GeFn`: one Go statement = one `GStmt`.  Operands are (object, field) pairs — object 0 is the receiver,
then the pointer parameters, then the local `fieldElement`s, then the package constants `d`, `d2`, `sqrtM1` — and a
run takes the base register of every object, so that ALIASED arguments (`p.Neg(p)`) are run on shared registers
exactly as the Go code runs on shared memory.

The interpreter `GeFn.run` is generic in the carrier: instantiated with
  * the executable limb operations of Model/Ed25519FeOps.lean (what the driver runs against the real code),
  * a field (Proofs: the formulas are the twisted Edwards addition/doubling laws),
  * limb-bound multipliers (`absRun`: every feMul/feSquare input within 3 ×, every sum within 3 ×).
-/
import DosModel.Model.Ed25519FeOps

namespace Dos.GeProg
open Dos Dos.FeProg

inductive FeOp where
  | mul | sq | sq2 | add | sub | neg | copy | zero | one | invert | pow22523 | cmove
  deriving Repr, DecidableEq

/-- (object, field) -/
abbrev Loc := Nat × Nat

/-- `fe<Op>(&dst, &a, &b)` (unused operands are (0, 0)) -/
structure GStmt where
  op : FeOp
  dst : Loc
  a : Loc
  b : Loc
  deriving Repr

structure GeFn where
  /-- number of fields of every object: receiver, parameters, locals (1 each), constants d, d2, sqrtM1 (1 each) -/
  objs : List Nat
  body : List GStmt
  deriving Repr

/-- the operations a carrier must provide -/
structure FeAlg (α : Type) where
  mul : α → α → α
  sq : α → α
  sq2 : α → α
  add : α → α → α
  sub : α → α → α
  neg : α → α
  zero : α
  one : α
  invert : α → α
  pow22523 : α → α
  /-- `feCMove(f, g, b)`: new f -/
  cmove : α → α → Int → α

def addr (bases : List Nat) (l : Loc) : Nat := bases.getD l.1 0 + l.2

def step {α : Type} (A : FeAlg α) (dflt : α) (bases : List Nat) (bsel : Int) (regs : List α) (s : GStmt) : List α :=
  let x := regs.getD (addr bases s.a) dflt
  let y := regs.getD (addr bases s.b) dflt
  let d := addr bases s.dst
  match s.op with
  | .mul => regs.set d (A.mul x y)
  | .sq => regs.set d (A.sq x)
  | .sq2 => regs.set d (A.sq2 x)
  | .add => regs.set d (A.add x y)
  | .sub => regs.set d (A.sub x y)
  | .neg => regs.set d (A.neg x)
  | .copy => regs.set d x
  | .zero => regs.set d A.zero
  | .one => regs.set d A.one
  | .invert => regs.set d (A.invert x)
  | .pow22523 => regs.set d (A.pow22523 x)
  | .cmove => regs.set d (A.cmove (regs.getD d dflt) x bsel)

/-- run a body on a register file; `bsel` is the int32 argument of the CMove methods -/
def runBody {α : Type} (A : FeAlg α) (dflt : α) (bases : List Nat) (bsel : Int) (body : List GStmt) (regs : List α) : List α :=
  body.foldl (step A dflt bases bsel) regs

/-- bases of a call without aliasing: objects laid out one after the other -/
def seqBases : List Nat → Nat → List Nat
  | [], _ => []
  | n :: ns, off => off :: seqBases ns (off + n)

/-- the executable limb operations (Go semantics) -/
def limbAlg : FeAlg L10 :=
  { mul := FeOps.feMul, sq := FeOps.feSquare, sq2 := FeOps.feSquare2, add := FeOps.feAdd, sub := FeOps.feSub,
    neg := FeOps.feNeg, zero := FeOps.feZero, one := FeOps.feOne, invert := FeOps.feInvert,
    pow22523 := FeOps.fePow22523, cmove := FeOps.feCMove }

/-! ### limb-bound multipliers -/

/-- `none` = contents unknown (an output or local not yet written) -/
abbrev Mult := Option Nat

def absStep (bases : List Nat) (M : List Mult) (s : GStmt) : Option (List Mult) :=
  let x := M.getD (addr bases s.a) none
  let y := M.getD (addr bases s.b) none
  let d := addr bases s.dst
  if d < M.length then
    match s.op with
    | .mul => match x, y with
      | some a, some b => if a ≤ 3 ∧ b ≤ 3 then some (M.set d (some 1)) else none
      | _, _ => none
    | .sq | .sq2 | .invert | .pow22523 => match x with
      | some a => if a ≤ 3 then some (M.set d (some 1)) else none
      | _ => none
    | .add | .sub => match x, y with
      | some a, some b => if a + b ≤ 3 then some (M.set d (some (a + b))) else none
      | _, _ => none
    | .neg => match x with
      | some a => if a ≤ 3 then some (M.set d (some a)) else none
      | _ => none
    | .copy => match x with
      | some a => some (M.set d (some a))
      | _ => none
    | .zero | .one => some (M.set d (some 1))
    | .cmove => match M.getD d none, x with
      | some a, some b => if a ≤ 3 ∧ b ≤ 3 then some (M.set d (some (max a b))) else none
      | _, _ => none
  else none

def absBody (bases : List Nat) : List GStmt → List Mult → Option (List Mult)
  | [], M => some M
  | s :: ss, M =>
    match absStep bases M s with
    | some M' => absBody bases ss M'
    | none => none

end Dos.GeProg

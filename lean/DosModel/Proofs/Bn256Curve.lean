/-
C10 layer 5 — `Jac.add` / `Jac.double` (curve.go, twist.go, transcribed in
Model/Bn256Curve.lean) over ANY commutative ring / field K in which the squaring operation
of the code is squaring (`hsq`; true for gfP by definition and for gfP2 by `Fp2.square_eq`):
closed forms of the general branch and of the doubling, the special cases, and the affine
chord / tangent equalities.
-/
import Mathlib.Tactic.Ring
import Mathlib.Tactic.FieldSimp
import Mathlib.Tactic.LinearCombination
import Mathlib.Algebra.Field.Basic
import DosModel.Model.Bn256Curve

namespace Dos.Bn256

/-- ℚ with x ↦ x·x as the squaring operation (used for concrete instances of the theorems) -/
instance instSqRat : Sq Rat := ⟨fun a => a * a⟩

namespace Jac

section ring
variable {K : Type} [CommRing K] [Sq K] [DecidableEq K]
set_option linter.unusedSectionVars false

/-- H = x₂z₁² − x₁z₂² -/
def H (a b : Jac K) : K := b.x * (a.z * a.z) - a.x * (b.z * b.z)
/-- N = y₂z₁³ − y₁z₂³ -/
def N (a b : Jac K) : K := b.y * (a.z * (a.z * a.z)) - a.y * (b.z * (b.z * b.z))

/-- **doubling, closed form** (dbl-2009-l, a = 0): X₃ = 9X⁴ − 8XY², Y₃ = 3X²(4XY² − X₃) − 8Y⁴, Z₃ = 2YZ;
the receiver's `t` is kept -/
theorem double_formulas (hsq : ∀ a : K, Sq.sq a = a * a) (c a : Jac K) :
    (double c a).x = 9 * a.x ^ 4 - 8 * a.x * a.y ^ 2 ∧
    (double c a).y = 3 * a.x ^ 2 * (4 * a.x * a.y ^ 2 - (9 * a.x ^ 4 - 8 * a.x * a.y ^ 2)) - 8 * a.y ^ 4 ∧
    (double c a).z = 2 * a.y * a.z ∧ (double c a).t = c.t := by
  simp only [double, hsq]
  refine ⟨by ring, by ring, by ring, trivial⟩

theorem add_inf_left (c a b : Jac K) (ha : a.z = 0) : add c a b = b := by
  simp [add, isInfinity, ha]

theorem add_inf_right (c a b : Jac K) (ha : a.z ≠ 0) (hb : b.z = 0) : add c a b = a := by
  simp [add, isInfinity, ha, hb]

/-- the two comparisons the code makes are H = 0 and N = 0 -/
theorem add_cases (hsq : ∀ a : K, Sq.sq a = a * a) (c a b : Jac K) (ha : a.z ≠ 0) (hb : b.z ≠ 0) :
    add c a b = if H a b = 0 ∧ N a b = 0 then double c a else
      ⟨4 * (N a b ^ 2 - (a.x * b.z ^ 2 + b.x * a.z ^ 2) * H a b ^ 2),
       8 * N a b * (a.x * b.z ^ 2) * H a b ^ 2
         - 2 * N a b * (4 * (N a b ^ 2 - (a.x * b.z ^ 2 + b.x * a.z ^ 2) * H a b ^ 2))
         - 8 * a.y * b.z ^ 3 * H a b ^ 3,
       2 * a.z * b.z * H a b, c.t⟩ := by
  have hH : b.x * Sq.sq a.z - a.x * Sq.sq b.z = H a b := by simp only [hsq, H]
  have hN : b.y * (a.z * Sq.sq a.z) - a.y * (b.z * Sq.sq b.z) = N a b := by simp only [hsq, N]
  simp only [add, isInfinity, ha, hb, decide_false, Bool.false_eq_true, if_false, hH, hN,
    Bool.and_eq_true, decide_eq_true_eq]
  split
  · rfl
  · simp only [hsq, H, N]
    congr 1 <;> ring

/-- **P + P through Add**: equal affine points are doubled -/
theorem add_same (hsq : ∀ a : K, Sq.sq a = a * a) (c a b : Jac K) (ha : a.z ≠ 0) (hb : b.z ≠ 0)
    (hH : H a b = 0) (hN : N a b = 0) : add c a b = double c a := by
  rw [add_cases hsq c a b ha hb, if_pos ⟨hH, hN⟩]

/-- **P + (−P)**: equal x, different y gives z₃ = 0 (the identity) -/
theorem add_opposite (hsq : ∀ a : K, Sq.sq a = a * a) (c a b : Jac K) (ha : a.z ≠ 0) (hb : b.z ≠ 0)
    (hH : H a b = 0) (hN : N a b ≠ 0) : (add c a b).z = 0 := by
  rw [add_cases hsq c a b ha hb, if_neg (fun h => hN h.2)]
  simp [hH]

end ring

section field
variable {K : Type} [Field K] [Sq K] [DecidableEq K]
set_option linter.unusedSectionVars false

/-- affine x and y of a Jacobian triple -/
def ax (a : Jac K) : K := a.x / a.z ^ 2
def ay (a : Jac K) : K := a.y / a.z ^ 3

theorem ax_sub (a b : Jac K) (ha : a.z ≠ 0) (hb : b.z ≠ 0) :
    ax b - ax a = H a b / (a.z ^ 2 * b.z ^ 2) := by
  simp only [ax, H]; field_simp

theorem ay_sub (a b : Jac K) (ha : a.z ≠ 0) (hb : b.z ≠ 0) :
    ay b - ay a = N a b / (a.z ^ 3 * b.z ^ 3) := by
  simp only [ay, N]; field_simp

/-- the chord slope in Jacobian terms: λ = N / (z₁ z₂ H) -/
theorem slope_eq (a b : Jac K) (ha : a.z ≠ 0) (hb : b.z ≠ 0) (hH : H a b ≠ 0) :
    (ay b - ay a) / (ax b - ax a) = N a b / (a.z * b.z * H a b) := by
  rw [ax_sub a b ha hb, ay_sub a b ha hb]; field_simp

/-- **add_affine (chord)**: for finite inputs with different affine x (H ≠ 0) the result is finite and
its affine image is the chord sum: λ = (y₂ − y₁)/(x₂ − x₁), x₃ = λ² − x₁ − x₂, y₃ = λ(x₁ − x₃) − y₁
(an identity of rational functions: no curve equation is needed) -/
theorem add_affine_chord (hsq : ∀ a : K, Sq.sq a = a * a) (c a b : Jac K) (ha : a.z ≠ 0) (hb : b.z ≠ 0)
    (hH : H a b ≠ 0) (h2 : (2 : K) ≠ 0) :
    (add c a b).z ≠ 0 ∧
    ax (add c a b) = ((ay b - ay a) / (ax b - ax a)) ^ 2 - ax a - ax b ∧
    ay (add c a b) = ((ay b - ay a) / (ax b - ax a)) * (ax a - ax (add c a b)) - ay a := by
  rw [add_cases hsq c a b ha hb, if_neg (fun h => hH h.1), slope_eq a b ha hb hH]
  have hz : 2 * a.z * b.z * H a b ≠ 0 := by simp [h2, ha, hb, hH]
  refine ⟨hz, ?_, ?_⟩
  · simp only [ax]; field_simp; ring
  · simp only [ax, ay]; field_simp; ring

/-- **add_affine (tangent)**: the doubling, for y ≠ 0: λ = 3x²/(2y), x₃ = λ² − 2x, y₃ = λ(x − x₃) − y -/
theorem double_affine_tangent (hsq : ∀ a : K, Sq.sq a = a * a) (c a : Jac K) (ha : a.z ≠ 0)
    (hy : a.y ≠ 0) (h2 : (2 : K) ≠ 0) :
    (double c a).z ≠ 0 ∧
    ax (double c a) = (3 * ax a ^ 2 / (2 * ay a)) ^ 2 - 2 * ax a ∧
    ay (double c a) = (3 * ax a ^ 2 / (2 * ay a)) * (ax a - ax (double c a)) - ay a := by
  obtain ⟨hx, hyy, hz, _⟩ := double_formulas hsq c a
  have hz0 : 2 * a.y * a.z ≠ 0 := by simp [h2, ha, hy]
  refine ⟨by rw [hz]; exact hz0, ?_, ?_⟩
  · simp only [ax, ay, hx, hz]; field_simp; ring
  · simp only [ax, ay, hx, hyy, hz]; field_simp; ring

/-- doubling a point with y = 0 (a point of order 2; none exists on y² = x³ + 3 over gfP) gives z₃ = 0 -/
theorem double_order_two (hsq : ∀ a : K, Sq.sq a = a * a) (c a : Jac K) (hy : a.y = 0) :
    (double c a).z = 0 := by
  rw [(double_formulas hsq c a).2.2.1, hy]; ring

/-- equal affine points are recognised: H = 0 ∧ N = 0 ⇔ same affine x and y -/
theorem same_affine_iff (a b : Jac K) (ha : a.z ≠ 0) (hb : b.z ≠ 0) :
    (H a b = 0 ∧ N a b = 0) ↔ (ax a = ax b ∧ ay a = ay b) := by
  constructor
  · rintro ⟨h1, h2⟩
    constructor
    · have := ax_sub a b ha hb; rw [h1, zero_div] at this; exact (sub_eq_zero.mp this).symm
    · have := ay_sub a b ha hb; rw [h2, zero_div] at this; exact (sub_eq_zero.mp this).symm
  · rintro ⟨h1, h2⟩
    constructor
    · have := ax_sub a b ha hb
      rw [h1, sub_self] at this
      have hd : a.z ^ 2 * b.z ^ 2 ≠ 0 := mul_ne_zero (pow_ne_zero _ ha) (pow_ne_zero _ hb)
      exact (div_eq_zero_iff.mp this.symm).resolve_right hd
    · have := ay_sub a b ha hb
      rw [h2, sub_self] at this
      have hd : a.z ^ 3 * b.z ^ 3 ≠ 0 := mul_ne_zero (pow_ne_zero _ ha) (pow_ne_zero _ hb)
      exact (div_eq_zero_iff.mp this.symm).resolve_right hd

/-- the doubling reached through Add (same affine point, different Jacobian representatives) is the
tangent sum of that affine point -/
theorem add_affine_tangent (hsq : ∀ a : K, Sq.sq a = a * a) (c a b : Jac K) (ha : a.z ≠ 0) (hb : b.z ≠ 0)
    (hH : H a b = 0) (hN : N a b = 0) (hy : a.y ≠ 0) (h2 : (2 : K) ≠ 0) :
    (add c a b).z ≠ 0 ∧
    ax (add c a b) = (3 * ax a ^ 2 / (2 * ay a)) ^ 2 - 2 * ax a ∧
    ay (add c a b) = (3 * ax a ^ 2 / (2 * ay a)) * (ax a - ax (add c a b)) - ay a := by
  rw [add_same hsq c a b ha hb hH hN]; exact double_affine_tangent hsq c a ha hy h2

/-- the curve equation y² = x³ + b in Jacobian form: Y² = X³ + b·Z⁶ -/
def OnCurve (b : K) (a : Jac K) : Prop := a.y ^ 2 = a.x ^ 3 + b * a.z ^ 6

theorem onCurve_affine (b : K) (a : Jac K) (ha : a.z ≠ 0) :
    OnCurve b a ↔ ay a ^ 2 = ax a ^ 3 + b := by
  simp only [OnCurve, ax, ay]
  constructor
  · intro h; field_simp; linear_combination h
  · intro h; field_simp at h; linear_combination h

end field
end Jac
end Dos.Bn256

/-
C20 — the twisted Edwards curve with a = −1 over an arbitrary field K:

      −x² + y² = 1 + d x² y²,        d a non-square, −1 a square (i² = −1), 2 ≠ 0.

This file: the complete addition law

      x3 = (x1 y2 + y1 x2) / (1 + d x1 x2 y1 y2),   y3 = (y1 y2 + x1 x2) / (1 − d x1 x2 y1 y2)

is total on curve points (`denom_ne_zero`: the denominators never vanish, because d is not a
square), closed (`add_closed`), commutative, has the identity (0, 1) and inverses (−x, y).
`addCommGroup E h` packages these with an associativity hypothesis `h : AssocLaw E` into an
`AddCommGroup (Point E)` whose `+`, `0`, `-` are definitionally the instances defined here.
Associativity itself is proved in `EdwardsAssoc*.lean`.

Pure mathematics; nothing here is specific to 2^255 − 19.
-/
import Mathlib.Tactic.Ring
import Mathlib.Tactic.FieldSimp
import Mathlib.Tactic.LinearCombination
import Mathlib.Algebra.Field.Basic
import Mathlib.Algebra.Group.Even

namespace Dos.Edwards

variable {K : Type*} [Field K]

/-- −x² + y² = 1 + d x² y² -/
def OnCurve (d x y : K) : Prop := -x^2 + y^2 = 1 + d * x^2 * y^2

/-- curve parameters: d is not a square, −1 is a square (i² = −1), and 2 ≠ 0 -/
structure Params (K : Type*) [Field K] where
  d : K
  i : K
  i_sq : i ^ 2 = -1
  d_nonsq : ¬ IsSquare d
  two_ne : (2 : K) ≠ 0

/-- The core of completeness: if d·x1·x2·y1·y2 = ε with ε² = 1 and i·x2 + y2 ≠ 0, then d is a
square (d · (x1 y1 (i x2 + y2))² = (i x1 + ε y1)²). -/
private theorem isSquare_of_eps {d i x1 y1 x2 y2 ε : K} (hi : i ^ 2 = -1)
    (h1 : OnCurve d x1 y1) (h2 : OnCurve d x2 y2) (hε : ε ^ 2 = 1)
    (h : d * x1 * x2 * y1 * y2 = ε) (hne : i * x2 + y2 ≠ 0) : IsSquare d := by
  unfold OnCurve at h1 h2
  have hε0 : ε ≠ 0 := by
    intro h0; rw [h0] at hε; simp at hε
  have hx1 : x1 ≠ 0 := by
    intro h0; apply hε0; rw [← h, h0]; ring
  have hy1 : y1 ≠ 0 := by
    intro h0; apply hε0; rw [← h, h0]; ring
  have key : (i * x1 + ε * y1) ^ 2 = d * (x1 * y1 * (i * x2 + y2)) ^ 2 := by
    linear_combination (x1 ^ 2 - d * x1 ^ 2 * y1 ^ 2 * x2 ^ 2) * hi + (y1 ^ 2 - 1) * hε + h1
      - d * x1 ^ 2 * y1 ^ 2 * h2 + (-(d * x1 * x2 * y1 * y2 + ε) - 2 * i * x1 * y1) * h
  have hw : x1 * y1 * (i * x2 + y2) ≠ 0 := mul_ne_zero (mul_ne_zero hx1 hy1) hne
  refine ⟨(i * x1 + ε * y1) / (x1 * y1 * (i * x2 + y2)), ?_⟩
  field_simp
  linear_combination -key

private theorem eps_false {d i x1 y1 x2 y2 ε : K} (hi : i ^ 2 = -1) (hd : ¬ IsSquare d)
    (h2ne : (2 : K) ≠ 0)
    (h1 : OnCurve d x1 y1) (h2 : OnCurve d x2 y2) (hε : ε ^ 2 = 1)
    (h : d * x1 * x2 * y1 * y2 = ε) : False := by
  by_cases hp : i * x2 + y2 = 0
  · by_cases hm : i * x2 + -y2 = 0
    · -- then 2·y2 = 0, so y2 = 0 and ε = 0
      have hy2 : y2 = 0 := by
        have : (2 : K) * y2 = 0 := by linear_combination hp - hm
        rcases mul_eq_zero.mp this with h' | h'
        · exact absurd h' h2ne
        · exact h'
      have : ε = 0 := by rw [← h, hy2]; ring
      rw [this] at hε; simp at hε
    · have h2' : OnCurve d x2 (-y2) := by
        unfold OnCurve at h2 ⊢; linear_combination h2
      exact hd (isSquare_of_eps (ε := -ε) hi h1 h2' (by linear_combination hε)
        (by linear_combination -h) hm)
  · exact hd (isSquare_of_eps hi h1 h2 hε h hp)

/-- Completeness: the two denominators of the addition law never vanish on curve points. -/
theorem denom_ne_zero (E : Params K) {x1 y1 x2 y2 : K} (h1 : OnCurve E.d x1 y1)
    (h2 : OnCurve E.d x2 y2) :
    1 + E.d * x1 * x2 * y1 * y2 ≠ 0 ∧ 1 - E.d * x1 * x2 * y1 * y2 ≠ 0 := by
  constructor
  · intro h
    exact eps_false (ε := -1) E.i_sq E.d_nonsq E.two_ne h1 h2 (by ring) (by linear_combination h)
  · intro h
    exact eps_false (ε := 1) E.i_sq E.d_nonsq E.two_ne h1 h2 (by ring) (by linear_combination -h)

/-- d ≠ 0 (0 is a square). -/
theorem Params.d_ne_zero (E : Params K) : E.d ≠ 0 := by
  intro h; exact E.d_nonsq ⟨0, by rw [h]; ring⟩

/-- The closure identity with denominators cleared. -/
theorem add_closed_poly {d x1 y1 x2 y2 : K} (h1 : OnCurve d x1 y1) (h2 : OnCurve d x2 y2) :
    -(x1 * y2 + y1 * x2) ^ 2 * (1 - d * x1 * x2 * y1 * y2) ^ 2
      + (y1 * y2 + x1 * x2) ^ 2 * (1 + d * x1 * x2 * y1 * y2) ^ 2
    = (1 + d * x1 * x2 * y1 * y2) ^ 2 * (1 - d * x1 * x2 * y1 * y2) ^ 2
      + d * (x1 * y2 + y1 * x2) ^ 2 * (y1 * y2 + x1 * x2) ^ 2 := by
  unfold OnCurve at h1 h2
  linear_combination
    (y2^4 - 4*x2^2*y2^2 + 2*x2^2*y2^4 + x2^4 - 2*x2^4*y2^2 - 2*d*x2^2*y2^2 - 2*d*x2^4*y2^4
      - d*y1^2*x2^2*y2^4 + d*y1^2*x2^4*y2^2 + d*x1^2*x2^2*y2^4 - d*x1^2*x2^4*y2^2
      - d^2*x2^4*y2^4 + d^2*y1^2*x2^4*y2^4 - d^2*x1^2*x2^4*y2^4
      + d^3*x1^2*y1^2*x2^4*y2^4) * h1
    + (1 + y2^2 - x2^2 + 2*x2^2*y2^2 - y1^2*y2^2 + y1^2*x2^2 - 2*y1^2*x2^2*y2^2 + x1^2*y2^2
      - x1^2*x2^2 + 2*x1^2*x2^2*y2^2 + d*x2^2*y2^2 - 2*d*y1^2*x2^2*y2^2 + d*y1^4*x2^2*y2^2
      + 2*d*x1^2*x2^2*y2^2 + d*x1^4*x2^2*y2^2) * h2

/-- Closure: the sum of two curve points is on the curve. -/
theorem add_closed (E : Params K) {x1 y1 x2 y2 : K} (h1 : OnCurve E.d x1 y1)
    (h2 : OnCurve E.d x2 y2) :
    OnCurve E.d ((x1 * y2 + y1 * x2) / (1 + E.d * x1 * x2 * y1 * y2))
      ((y1 * y2 + x1 * x2) / (1 - E.d * x1 * x2 * y1 * y2)) := by
  obtain ⟨hp, hm⟩ := denom_ne_zero E h1 h2
  have key := add_closed_poly h1 h2
  unfold OnCurve
  generalize 1 + E.d * x1 * x2 * y1 * y2 = p at hp key ⊢
  generalize 1 - E.d * x1 * x2 * y1 * y2 = m at hm key ⊢
  field_simp
  linear_combination key

theorem zero_onCurve (d : K) : OnCurve d 0 1 := by unfold OnCurve; ring

theorem neg_onCurve {d x y : K} (h : OnCurve d x y) : OnCurve d (-x) y := by
  unfold OnCurve at h ⊢; linear_combination h

/-- a point of the curve -/
@[ext] structure Point (E : Params K) where
  x : K
  y : K
  on : OnCurve E.d x y

variable {E : Params K}

instance : Zero (Point E) := ⟨⟨0, 1, zero_onCurve E.d⟩⟩

instance : Neg (Point E) := ⟨fun P => ⟨-P.x, P.y, neg_onCurve P.on⟩⟩

instance : Add (Point E) :=
  ⟨fun P Q => ⟨(P.x * Q.y + P.y * Q.x) / (1 + E.d * P.x * Q.x * P.y * Q.y),
    (P.y * Q.y + P.x * Q.x) / (1 - E.d * P.x * Q.x * P.y * Q.y), add_closed E P.on Q.on⟩⟩

@[simp] theorem zero_x : (0 : Point E).x = 0 := rfl
@[simp] theorem zero_y : (0 : Point E).y = 1 := rfl
@[simp] theorem neg_x (P : Point E) : (-P).x = -P.x := rfl
@[simp] theorem neg_y (P : Point E) : (-P).y = P.y := rfl
@[simp] theorem add_x (P Q : Point E) :
    (P + Q).x = (P.x * Q.y + P.y * Q.x) / (1 + E.d * P.x * Q.x * P.y * Q.y) := rfl
@[simp] theorem add_y (P Q : Point E) :
    (P + Q).y = (P.y * Q.y + P.x * Q.x) / (1 - E.d * P.x * Q.x * P.y * Q.y) := rfl

/-- the denominators of P + Q, as a pair of facts about points -/
theorem Point.denom_ne_zero (P Q : Point E) :
    1 + E.d * P.x * Q.x * P.y * Q.y ≠ 0 ∧ 1 - E.d * P.x * Q.x * P.y * Q.y ≠ 0 :=
  Dos.Edwards.denom_ne_zero E P.on Q.on

theorem add_comm' (P Q : Point E) : P + Q = Q + P := by
  ext
  · simp only [add_x]; congr 1 <;> ring
  · simp only [add_y]; congr 1 <;> ring

theorem zero_add' (P : Point E) : 0 + P = P := by
  ext <;> simp

theorem add_zero' (P : Point E) : P + 0 = P := by
  ext <;> simp

theorem neg_add_cancel' (P : Point E) : -P + P = 0 := by
  obtain ⟨hp, hm⟩ := Point.denom_ne_zero (-P) P
  have hon := P.on
  unfold OnCurve at hon
  ext
  · simp only [add_x, neg_x, neg_y, zero_x]
    rw [div_eq_zero_iff]; left; ring
  · simp only [add_y, neg_x, neg_y, zero_y] at hm ⊢
    rw [div_eq_one_iff_eq hm]
    linear_combination hon

theorem add_neg_cancel' (P : Point E) : P + -P = 0 := by
  rw [add_comm', neg_add_cancel']

/-- the ONE remaining mathematical hypothesis (proved in `EdwardsAssoc`) -/
def AssocLaw (E : Params K) : Prop := ∀ P Q R : Point E, P + Q + R = P + (Q + R)

/-- the commutative group of curve points -/
@[reducible] def addCommGroup (E : Params K) (h : AssocLaw E) : AddCommGroup (Point E) where
  add := (· + ·)
  add_assoc := h
  zero := 0
  zero_add := zero_add'
  add_zero := add_zero'
  nsmul := nsmulRec
  neg := (- ·)
  zsmul := zsmulRec
  neg_add_cancel := neg_add_cancel'
  add_comm := add_comm'

example (E : Params K) (h : AssocLaw E) (P Q : Point E) :
    (letI := addCommGroup E h; P + Q) = P + Q := rfl
example (E : Params K) (h : AssocLaw E) (P : Point E) :
    (letI := addCommGroup E h; -P) = -P := rfl
example (E : Params K) (h : AssocLaw E) :
    (letI := addCommGroup E h; (0 : Point E)) = 0 := rfl

end Dos.Edwards

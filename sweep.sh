#!/bin/sh
# sweep.sh <tier> <seed...>   runs every registered check for each seed (4 at a time) and prints one line per run.
cd "$(dirname "$0")"
TIER=${1:-quick}; shift; SEEDS=${@:-1}
IDS=$(ls meta/C*.json | sed 's#meta/\(.*\)\.json#\1#')
mkdir -p work/sweep
for s in $SEEDS; do
  for id in $IDS; do echo "$id $s"; done
done | xargs -P 4 -L 1 sh -c 'VERIF_SEED=$1 ./check $0 '"$TIER"' > work/sweep/$0-$1.log 2>&1; echo "$0 seed=$1 exit=$? $(tail -1 work/sweep/$0-$1.log)"; grep -h "^VIOLATION\|^KNOWN-FINDING" work/sweep/$0-$1.log | head -5'

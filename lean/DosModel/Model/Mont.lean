/-
C10 layer 2 — Montgomery arithmetic of group/bn256 (gfp.s), two levels.

* **limb level** (`addLimbs`, `subLimbs`, `negLimbs`, `carryLimbs`): the exact word
  operations the assembly performs, written with the same primitive expressions as
  the interpreter `Model/AsmInterp.lean` uses for ADD/ADC/SUB/SBB/CMOVCC, so that
  "interpreted gfp.s = limb model" is a definitional equality (Proofs/AsmField.lean)
  for ALL register/memory/alias states.
* **number level** (`addM`, `subM`, `negM`, `redc`, `mulM`): what those limbs mean
  as natural numbers, for ALL 256-bit operands (reduced or not); the driver runs
  these. `Proofs/Mont*.lean` prove limb level = number level and the Montgomery
  theorems (`redc_correct`, …).
-/
namespace Dos.Mont

abbrev W : Nat := 18446744073709551616   -- 2^64
abbrev R : Nat := 115792089237316195423570985008687907853269984665640564039457584007913129639936  -- 2^256

/-- four little-endian 64-bit limbs (a Go `gfP`) -/
structure L4 where
  l0 : Nat
  l1 : Nat
  l2 : Nat
  l3 : Nat
  deriving DecidableEq, Repr

def L4.val (x : L4) : Nat := x.l0 + W * x.l1 + W * W * x.l2 + W * W * W * x.l3
def L4.ok (x : L4) : Prop := x.l0 < W ∧ x.l1 < W ∧ x.l2 < W ∧ x.l3 < W
def L4.ofNat (n : Nat) : L4 := ⟨n % W, n / W % W, n / (W * W) % W, n / (W * W * W) % W⟩
def L4.ofList (l : List Nat) : L4 := ⟨l.getD 0 0, l.getD 1 0, l.getD 2 0, l.getD 3 0⟩

/-! ### word primitives (same expressions as the interpreter's `step`) -/
/-- ADDQ x, y: low word and carry -/
def addLo (y x : Nat) : Nat := (y + x) % W
def addC (y x : Nat) : Nat := (y + x) / W
/-- ADCQ x, y with carry-in c -/
def adcLo (y x c : Nat) : Nat := (y + x + c) % W
def adcC (y x c : Nat) : Nat := (y + x + c) / W
/-- SUBQ x, y: low word and borrow -/
def subLo (y x : Nat) : Nat := (y + W - x) % W
def subB (y x : Nat) : Nat := 1 - (y + W - x) / W
/-- SBBQ x, y with borrow-in f -/
def sbbLo (y x f : Nat) : Nat := (y + W - x - f) % W
def sbbB (y x f : Nat) : Nat := 1 - (y + W - x - f) / W
/-- CMOVQCC src, dst under carry flag f -/
def cmovcc (f src dst : Nat) : Nat := if f = 0 then src else dst
/-- MULQ / MULXQ halves -/
def mulLo (a x : Nat) : Nat := a * x % W
def mulHi (a x : Nat) : Nat := a * x / W

/-! ### limb level -/

/-- the `gfpCarry` macro on the 5-word value r4:r3:r2:r1:r0 — subtract p with a 5-word
borrow chain, keep the difference iff there was no final borrow -/
def carryLimbs (p : L4) (r0 r1 r2 r3 r4 : Nat) : L4 :=
  let t0 := subLo r0 p.l0
  let f0 := subB r0 p.l0
  let t1 := sbbLo r1 p.l1 f0
  let f1 := sbbB r1 p.l1 f0
  let t2 := sbbLo r2 p.l2 f1
  let f2 := sbbB r2 p.l2 f1
  let t3 := sbbLo r3 p.l3 f2
  let f3 := sbbB r3 p.l3 f2
  let f4 := sbbB r4 0 f3
  ⟨cmovcc f4 t0 r0, cmovcc f4 t1 r1, cmovcc f4 t2 r2, cmovcc f4 t3 r3⟩

/-- gfpAdd -/
def addLimbs (p a b : L4) : L4 :=
  let r0 := addLo a.l0 b.l0
  let c0 := addC a.l0 b.l0
  let r1 := adcLo a.l1 b.l1 c0
  let c1 := adcC a.l1 b.l1 c0
  let r2 := adcLo a.l2 b.l2 c1
  let c2 := adcC a.l2 b.l2 c1
  let r3 := adcLo a.l3 b.l3 c2
  let c3 := adcC a.l3 b.l3 c2
  let r4 := adcLo 0 0 c3
  carryLimbs p r0 r1 r2 r3 r4

/-- gfpSub: a − b with a 4-word borrow chain, then add p (or 0 if there was no borrow) -/
def subLimbs (p a b : L4) : L4 :=
  let d0 := subLo a.l0 b.l0
  let f0 := subB a.l0 b.l0
  let d1 := sbbLo a.l1 b.l1 f0
  let f1 := sbbB a.l1 b.l1 f0
  let d2 := sbbLo a.l2 b.l2 f1
  let f2 := sbbB a.l2 b.l2 f1
  let d3 := sbbLo a.l3 b.l3 f2
  let f3 := sbbB a.l3 b.l3 f2
  let m0 := cmovcc f3 0 p.l0
  let m1 := cmovcc f3 0 p.l1
  let m2 := cmovcc f3 0 p.l2
  let m3 := cmovcc f3 0 p.l3
  let r0 := addLo d0 m0
  let c0 := addC d0 m0
  let r1 := adcLo d1 m1 c0
  let c1 := adcC d1 m1 c0
  let r2 := adcLo d2 m2 c1
  let c2 := adcC d2 m2 c1
  let r3 := adcLo d3 m3 c2
  ⟨r0, r1, r2, r3⟩

/-- gfpNeg: p − a with a 4-word borrow chain (the borrow is dropped), then `gfpCarry` with top word 0 -/
def negLimbs (p a : L4) : L4 :=
  let d0 := subLo p.l0 a.l0
  let f0 := subB p.l0 a.l0
  let d1 := sbbLo p.l1 a.l1 f0
  let f1 := sbbB p.l1 a.l1 f0
  let d2 := sbbLo p.l2 a.l2 f1
  let f2 := sbbB p.l2 a.l2 f1
  let d3 := sbbLo p.l3 a.l3 f2
  carryLimbs p d0 d1 d2 d3 0

/-! ### number level (all operands are any naturals below 2^256) -/

/-- what gfpAdd stores: a+b, minus p if that does not go negative, truncated to 4 words -/
def addM (p a b : Nat) : Nat := (if p ≤ a + b then a + b - p else a + b) % R
/-- what gfpSub stores -/
def subM (p a b : Nat) : Nat := if b ≤ a then a - b else (a + R - b + p) % R
/-- what gfpNeg stores -/
def negM (p a : Nat) : Nat :=
  let d := (p + R - a) % R
  if p ≤ d then d - p else d

/-- Montgomery reduction before the conditional subtraction: (T + (T·np mod R)·p) / R -/
def redcU (p np T : Nat) : Nat := (T + (T % R * np % R) * p) / R
/-- REDC with the single conditional subtraction of `gfpCarry` -/
def redc (p np T : Nat) : Nat :=
  let u := redcU p np T
  if p ≤ u then u - p else u
/-- what gfpMul stores (both code paths) for any 256-bit a, b -/
def mulM (p np a b : Nat) : Nat := redc p np (a * b) % R

end Dos.Mont

/-
C12 — the hand-maintained map  *panic site → model clause*  and the guard configuration
`Cfg.current` derived from the regenerated inventory (`Gen/PanicSites.lean`, extractor E5).

`table` lists every site the extractor finds in the functions reachable from peer input,
with the guard text expected for it and what the model does about it:

* `.flag f`   – the dominating guard is modelled as `Cfg` flag `f`; with the flag off the model
                takes the `panic` branch for this site;
* `.cross fn cond f` – guarded in another function `fn` by condition `cond` (must occur in `Gen.conds`), flag `f`;
* `.model h`  – a `panic` branch of model function `h`, proved unreachable without any flag;
* `.guarded`  – not modelled; safe because of the dominating guard / structural fact the extractor found for it
                (the entry's guard text, tied to the source by `inventory_matches`), of a class that is
                sufficient for the site's kind: a nil comparison of the dereferenced operand, a `len`/`range`
                bound of the indexed value, the comma-ok form, a plain map read `v := m[k]` (uses of `v` are sites of their own), a deferred close of a channel made by the same
                function, a write to a map made by the same function (`guarded_sites_checked`);
* `.safe why` – not modelled; cannot fail for the reason argued in prose (the trusted part: `classification_counts`).

`Props/C12.lean` proves (by evaluation) that table and inventory agree key by key and guard
by guard, so a new, vanished or re-guarded site breaks the obligation, and that
`Cfg.current = Cfg.all`.
-/
import DosModel.Model.Handlers
import DosModel.Gen.PanicSites

namespace Dos.Handlers
open Dos

inductive Clause where
  | flag (name : String)
  | cross (fn cond flag : String)
  | model (handler : String)
  | guarded
  | safe (why : String)
  deriving DecidableEq, Repr

structure Entry where
  key : String
  guard : String
  clause : Clause
  deriving DecidableEq, Repr

def table : List Entry := [
  ⟨"discover.serfNet.Listen|slice|member.Name[:20]", "after:len(member.Name) < 20", .flag "listenName"⟩,
  ⟨"discover.serfNet.Listen|typeassert|event.(serf.MemberEvent)", "ok", .flag "listenCast"⟩,
  ⟨"discover.serfNet.Lookup|index|members[i]", "for:i < len(members)", .guarded⟩,
  ⟨"discover.serfNet.Lookup|index|members[i]#2", "for:i < len(members); after:len(members[i].Name) < 20", .guarded⟩,
  ⟨"discover.serfNet.Lookup|index|members[i]#3", "for:i < len(members); after:len(members[i].Name) < 20", .guarded⟩,
  ⟨"discover.serfNet.Lookup|index|members[i]#4", "for:i < len(members); after:len(members[i].Name) < 20; else:len(members[i].Name) == 20", .guarded⟩,
  ⟨"discover.serfNet.Lookup|index|members[i]#5", "for:i < len(members); after:len(members[i].Name) < 20", .guarded⟩,
  ⟨"discover.serfNet.Lookup|index|members[i]#6", "for:i < len(members); after:len(members[i].Name) < 20; in:nodeId == string(id) && members[i].Status == serf.StatusAlive", .guarded⟩,
  ⟨"discover.serfNet.Lookup|index|members[i]#7", "for:i < len(members); after:len(members[i].Name) < 20; in:nodeId == string(id) && members[i].Status == serf.StatusAlive", .guarded⟩,
  ⟨"discover.serfNet.Lookup|slice|members[i].Name[20:]", "after:len(members[i].Name) < 20; else:len(members[i].Name) == 20", .flag "lookupName"⟩,
  ⟨"discover.serfNet.Lookup|slice|members[i].Name[:20]", "after:len(members[i].Name) < 20", .flag "lookupName"⟩,
  ⟨"discover.serfNet.MembersID|index|members[i]", "for:i < len(members)", .guarded⟩,
  ⟨"discover.serfNet.MembersID|index|members[i]#2", "for:i < len(members); after:len(members[i].Name) < 20", .guarded⟩,
  ⟨"discover.serfNet.MembersID|index|members[i]#3", "for:i < len(members); after:len(members[i].Name) < 20; else:len(members[i].Name) == 20", .guarded⟩,
  ⟨"discover.serfNet.MembersID|index|members[i]#4", "for:i < len(members); after:len(members[i].Name) < 20", .guarded⟩,
  ⟨"discover.serfNet.MembersID|index|members[i]#5", "for:i < len(members); after:len(members[i].Name) < 20", .guarded⟩,
  ⟨"discover.serfNet.MembersID|index|members[i]#6", "for:i < len(members); after:len(members[i].Name) < 20", .guarded⟩,
  ⟨"discover.serfNet.MembersID|index|members[i]#7", "for:i < len(members); after:len(members[i].Name) < 20; in:members[i].Status == serf.StatusAlive", .guarded⟩,
  ⟨"discover.serfNet.MembersID|slice|members[i].Name[20:]", "after:len(members[i].Name) < 20; else:len(members[i].Name) == 20", .flag "lookupName"⟩,
  ⟨"discover.serfNet.MembersIP|index|members[i]", "for:i < len(members)", .guarded⟩,
  ⟨"discover.serfNet.MembersIP|index|members[i]#2", "for:i < len(members); in:members[i].Name != s._serf.LocalMember().Name", .guarded⟩,
  ⟨"discover.serfNet.NumOfPeers|index|members[i]", "for:i < len(members)", .guarded⟩,
  ⟨"discover.serfNet.NumOfPeers|index|members[i]#2", "for:i < len(members); and:members[i].Status == serf.StatusAlive", .guarded⟩,
  ⟨"dkg.DistKeyGenerator.Deals|deref|resp.Response.Status", "", .safe "resp of a successful ProcessDeal: ProcessDeal builds &Response{Response: resp} from the non-nil result of ProcessEncryptedDeal (err == nil branch)"⟩,
  ⟨"dkg.DistKeyGenerator.Deals|index|deals[i]", "", .safe "deals = EncryptedDeals() has len(dealer.verifiers); the dealer was built by NewDealer over d.participants, the slice i ranges over"⟩,
  ⟨"dkg.DistKeyGenerator.Deals|mapwrite|dd[i]", "made:dd", .guarded⟩,
  ⟨"dkg.DistKeyGenerator.Deals|panic|panic(\"dkg: cannot process own deal: \" + err.Error())", "after:err != nil; range:d.participants; in:i == int(d.index); after:ok; in:err != nil", .safe "own deal: sealed by this node for its own index one statement earlier (EncryptedDeals) and opened with its own long-term key, so ProcessDeal fails only if the participant list maps the own key to another index or carries no own key: NewDistKeyGenerator refuses a list without the own key, and a peer seat announcing OUR key is refused by genDistKeyGenerator since babf9f5 (model gdkgLoop: err dupkey)"⟩,
  ⟨"dkg.DistKeyGenerator.Deals|panic|panic(\"dkg: own deal gave a complaint\")", "after:err != nil; range:d.participants; in:i == int(d.index); after:ok; else:err != nil; in:resp.Response.Status != vss.StatusApproval", .safe "own deal: sealed by this node for its own index one statement earlier (EncryptedDeals) and opened with its own long-term key, so ProcessDeal fails only if the participant list maps the own key to another index or carries no own key: NewDistKeyGenerator refuses a list without the own key, and a peer seat announcing OUR key is refused by genDistKeyGenerator since babf9f5 (model gdkgLoop: err dupkey); the own share is evaluated from the own polynomial whose commitments the deal carries, so VerifyDeal approves"⟩,
  ⟨"dkg.DistKeyGenerator.DistKeyShare|deref|deal.SecShare.V", "", .model "distKeyShare: every aggregator stores a deal whose share has a value (dkgRun_good, distKeyShare_total)"⟩,
  ⟨"dkg.DistKeyGenerator.DistKeyShare|deref|pub.Add", "after:pub == nil", .guarded⟩,
  ⟨"dkg.DistKeyGenerator.DistKeyShare|deref|pub.Info", "", .safe "DistKeyShare returned above unless Certified, so qualIter visited at least one dealer and set pub"⟩,
  ⟨"dkg.DistKeyGenerator.DistKeyShare|ifacenil|deal.SecShare.V", "", .model "distKeyShare: every aggregator stores a deal whose share has a value (dkgRun_good, distKeyShare_total)"⟩,
  ⟨"dkg.DistKeyGenerator.ProcessDeal|deref|dd.Index", "", .safe "dd is the result of a comma-ok assertion on a message built by ptypes.UnmarshalAny: never a nil pointer"⟩,
  ⟨"dkg.DistKeyGenerator.ProcessDeal|mapwrite|d.verifiers[dd.Index]", "", .safe "map created by make in the same function or in the constructor"⟩,
  ⟨"dkg.DistKeyGenerator.ProcessDeal|mapzero|d.verifiers[dd.Index].UnsafeSetResponseDKG", "", .safe "entry stored a few lines above; its aggregator exists because ProcessEncryptedDeal returned no error"⟩,
  ⟨"dkg.DistKeyGenerator.ProcessResponse|deref|resp.Response", "or:resp == nil", .flag "respNil"⟩,
  ⟨"dkg.DistKeyGenerator.ProcessResponse|mapzero|d.verifiers[resp.Index]", "ok", .flag "respVerOk"⟩,
  ⟨"dkg.askMembers|close|close(out)", "made:out", .safe "closed on the one exit that does not hand the channel to pdkg.Loop (dffdff3); channel life-cycle is C14's"⟩,
  ⟨"dkg.decodePubKey|index|pubKeyCoor[i]", "for:i < 4", .safe "[4]*big.Int indexed by i < 4"⟩,
  ⟨"dkg.decodePubKey|slice|pubKeyMar[32*i+1 : 32*i+33]", "after:len(pubKeyMar) < 32*4+1; for:i < 4", .flag "pubKeyLen"⟩,
  ⟨"dkg.exchangePub|close|close(errc)", "defer; made:errc", .guarded⟩,
  ⟨"dkg.exchangePub|close|close(out)", "defer; made:out", .guarded⟩,
  ⟨"dkg.exchangePub|deref|pubkey.Index", "or:pubkey == nil || pubkey.Publickey == nil", .guarded⟩,
  ⟨"dkg.exchangePub|deref|pubkey.Index#2", "or:pubkey == nil || pubkey.Publickey == nil || int(pubkey.Index) >= len(groupIds)", .guarded⟩,
  ⟨"dkg.exchangePub|deref|pubkey.Publickey", "or:pubkey == nil", .guarded⟩,
  ⟨"dkg.exchangePub|deref|pubkey.Publickey#2", "or:pubkey == nil || pubkey.Publickey == nil || int(pubkey.Index) >= len(groupIds)", .guarded⟩,
  ⟨"dkg.exchangePub|deref|pubkey.Publickey.SenderId", "or:pubkey == nil || pubkey.Publickey == nil || int(pubkey.Index) >= len(groupIds)", .flag "xpubIdx"⟩,
  ⟨"dkg.exchangePub|index|groupIds[pubkey.Index]", "or:pubkey == nil || pubkey.Publickey == nil || int(pubkey.Index) >= len(groupIds)", .flag "xpubIdx"⟩,
  ⟨"dkg.exchangePub|typeassert|resp.(*PublicKey)", "ok", .flag "xpubCastSelf"⟩,
  ⟨"dkg.exchangePub|typeassert|resp.(*PublicKey)#2", "ok", .flag "xpubCastPeer"⟩,
  ⟨"dkg.findPub|index|list[i]", "after:i >= uint32(len(list))", .flag "findPubDkg"⟩,
  ⟨"dkg.genDealsAndSend|close|close(errc)", "defer; made:errc", .guarded⟩,
  ⟨"dkg.genDealsAndSend|close|close(out)", "defer; made:out", .guarded⟩,
  ⟨"dkg.genDealsAndSend|index|groupIds[i]", "", .safe "i ranges over the keys of dkg.Deals(): participant indices < len(pubPoints) = numOfPubkeys = len(groupIds) (Grouping passes the same list to genDistKeyGenerator and here)"⟩,
  ⟨"dkg.genDistKeyGenerator|close|close(errc)", "defer; made:errc", .guarded⟩,
  ⟨"dkg.genDistKeyGenerator|close|close(out)", "defer; made:out", .guarded⟩,
  ⟨"dkg.genDistKeyGenerator|deref|other.Equal", "and:other != nil && uint32(k) != pubkey.Index", .guarded⟩,
  ⟨"dkg.genDistKeyGenerator|deref|pubkey.Index", "or:pubkey == nil || pubkey.Publickey == nil", .flag "gdkgGuard"⟩,
  ⟨"dkg.genDistKeyGenerator|deref|pubkey.Index#2", "after:pubkey == nil || pubkey.Publickey == nil || pubkey.Index >= uint32(len(pubPoints))", .flag "gdkgGuard"⟩,
  ⟨"dkg.genDistKeyGenerator|deref|pubkey.Index#3", "after:pubkey == nil || pubkey.Publickey == nil || pubkey.Index >= uint32(len(pubPoints))", .flag "gdkgGuard"⟩,
  ⟨"dkg.genDistKeyGenerator|deref|pubkey.Index#4", "after:pubkey == nil || pubkey.Publickey == nil || pubkey.Index >= uint32(len(pubPoints))", .flag "gdkgGuard"⟩,
  ⟨"dkg.genDistKeyGenerator|deref|pubkey.Index#5", "after:pubkey == nil || pubkey.Publickey == nil || pubkey.Index >= uint32(len(pubPoints))", .flag "gdkgGuard"⟩,
  ⟨"dkg.genDistKeyGenerator|deref|pubkey.Index#6", "after:pubkey == nil || pubkey.Publickey == nil || pubkey.Index >= uint32(len(pubPoints))", .flag "gdkgGuard"⟩,
  ⟨"dkg.genDistKeyGenerator|deref|pubkey.Publickey", "or:pubkey == nil", .flag "gdkgGuard"⟩,
  ⟨"dkg.genDistKeyGenerator|deref|pubkey.Publickey#2", "after:pubkey == nil || pubkey.Publickey == nil || pubkey.Index >= uint32(len(pubPoints))", .flag "gdkgGuard"⟩,
  ⟨"dkg.genDistKeyGenerator|deref|pubkey.Publickey.Binary", "after:pubkey == nil || pubkey.Publickey == nil || pubkey.Index >= uint32(len(pubPoints))", .flag "gdkgGuard"⟩,
  ⟨"dkg.genDistKeyGenerator|index|pubPoints[pubkey.Index]", "after:pubkey == nil || pubkey.Publickey == nil || pubkey.Index >= uint32(len(pubPoints))", .flag "gdkgGuard"⟩,
  ⟨"dkg.genDistKeyGenerator|index|pubPoints[pubkey.Index]#2", "after:pubkey == nil || pubkey.Publickey == nil || pubkey.Index >= uint32(len(pubPoints)); after:pubPoints[pubkey.Index] != nil", .flag "gdkgGuard"⟩,
  ⟨"dkg.genDistKeyGenerator|index|pubPoints[pubkey.Index]#3", "after:pubkey == nil || pubkey.Publickey == nil || pubkey.Index >= uint32(len(pubPoints)); after:pubPoints[pubkey.Index] != nil", .flag "gdkgGuard"⟩,
  ⟨"dkg.genDistKeyGenerator|index|pubPoints[pubkey.Index]#4", "after:pubkey == nil || pubkey.Publickey == nil || pubkey.Index >= uint32(len(pubPoints)); after:pubPoints[pubkey.Index] != nil; and:other != nil && uint32(k) != pubkey.Index", .flag "gdkgGuard"⟩,
  ⟨"dkg.genDistKeyGenerator|make|make([]kyber.Point, numOfPubkeys)", "", .safe "numOfPubkeys = len(groupIds) of a local call"⟩,
  ⟨"dkg.genGroup|close|close(errc)", "defer; made:errc", .guarded⟩,
  ⟨"dkg.genGroup|close|close(out)", "defer; made:out", .guarded⟩,
  ⟨"dkg.genGroup|slice|dataReturn[1:]", "", .safe "[5]*big.Int"⟩,
  ⟨"dkg.genGroup|slice|pubKeyCoor[:]", "", .safe "[4]*big.Int"⟩,
  ⟨"dkg.genPub|close|close(errc)", "defer; made:errc", .guarded⟩,
  ⟨"dkg.genPub|close|close(out)", "defer; made:out", .guarded⟩,
  ⟨"dkg.genPub|close|close(secrc)", "defer; made:secrc", .guarded⟩,
  ⟨"dkg.getAndProcessDeals|close|close(dkgOut)", "defer; made:dkgOut", .guarded⟩,
  ⟨"dkg.getAndProcessDeals|close|close(errc)", "defer; made:errc", .guarded⟩,
  ⟨"dkg.getAndProcessDeals|close|close(out)", "defer; made:out", .guarded⟩,
  ⟨"dkg.getAndProcessDeals|deref|dkg.ProcessDeal", "after:dkg == nil", .flag "dealsDkgNil"⟩,
  ⟨"dkg.getAndProcessDeals|deref|dkg.ProcessDeal(deal)", "after:dkg == nil", .flag "dealsDkgNil"⟩,
  ⟨"dkg.getAndProcessDeals|deref|resp.Response.Status", "", .safe "ProcessDeal returns err == nil only with Response set to the non-nil result of ProcessEncryptedDeal"⟩,
  ⟨"dkg.getAndProcessDeals|typeassert|d.(*Deal)", "ok", .flag "dealsCast"⟩,
  ⟨"dkg.getAndProcessResponses|close|close(errc)", "defer; made:errc", .guarded⟩,
  ⟨"dkg.getAndProcessResponses|close|close(out)", "defer; made:out", .guarded⟩,
  ⟨"dkg.getAndProcessResponses|deref|dkg.ProcessResponse", "after:dkg == nil", .flag "respsDkgNil"⟩,
  ⟨"dkg.getAndProcessResponses|deref|dkg.ProcessResponse(resp)", "after:dkg == nil", .flag "respsDkgNil"⟩,
  ⟨"dkg.getAndProcessResponses|typeassert|r.(*Response)", "ok", .flag "respsCast"⟩,
  ⟨"dkg.handlePeerMsg|close|close(sessionReq[sessionID].reply)", "", .model "sessStep: a reply channel is closed when its entry is deleted, never twice (sess_total)"⟩,
  ⟨"dkg.handlePeerMsg|deref|r.Response.Index", "in:ok && r.Response != nil", .flag "peerRespNil"⟩,
  ⟨"dkg.handlePeerMsg|deref|respFromPeer.Response.Index", "in:respFromPeer.Response != nil", .flag "peerRespNil"⟩,
  ⟨"dkg.handlePeerMsg|mapwrite|sessionMap[sessionID]", "", .safe "maps made in Loop"⟩,
  ⟨"dkg.handlePeerMsg|mapzero|sessionMap[sessionID]", "read", .guarded⟩,
  ⟨"dkg.handlePeerMsg|mapzero|sessionMap[sessionID]#2", "read", .guarded⟩,
  ⟨"dkg.handlePeerMsg|mapzero|sessionReq[sessionID].ctx", "in:len(sessionMap[sessionID]) == sessionReq[sessionID].numOfResps", .model "handlePeerMsg: the zero-value request (numOfResps 0, nil ctx) is never selected because the buffer has ≥ 1 element after the append (sess_total)"⟩,
  ⟨"dkg.handlePeerMsg|mapzero|sessionReq[sessionID].numOfResps", "", .safe "reading a field of the zero value"⟩,
  ⟨"dkg.handlePeerMsg|mapzero|sessionReq[sessionID].reply", "in:len(sessionMap[sessionID]) == sessionReq[sessionID].numOfResps", .model "same branch as .ctx"⟩,
  ⟨"dkg.handlePeerMsg|mapzero|sessionReq[sessionID].reply#2", "in:len(sessionMap[sessionID]) == sessionReq[sessionID].numOfResps", .model "same branch as .ctx"⟩,
  ⟨"dkg.handlePeerMsg|typeassert|dd.(*Deal)", "ok", .guarded⟩,
  ⟨"dkg.handlePeerMsg|typeassert|p.(*PublicKey)", "ok", .guarded⟩,
  ⟨"dkg.handlePeerMsg|typeassert|rr.(*Response)", "ok", .guarded⟩,
  ⟨"dkg.handleRequest|close|close(req.reply)", "", .model "sessStep: fresh channel of this request, closed once (sess_total)"⟩,
  ⟨"dkg.handleRequest|mapwrite|sessionReq[req.sessionID]", "", .safe "maps made in Loop"⟩,
  ⟨"dkg.handleRequest|mapzero|sessionReq[req.sessionID].ctx", "", .safe "entry written by the first statement of the function"⟩,
  ⟨"dkg.handleRequest|mapzero|sessionReq[req.sessionID].reply", "", .safe "entry written by the first statement of the function"⟩,
  ⟨"dkg.initDistKeyGenerator|ifaceslot|p.Equal(pub)", "", .model "newDkg: no empty participant slot after n distinct in-range indices (genDkg_total)"⟩,
  ⟨"dkg.pdkg.GetGroupIDs|typeassert|g.(*group)", "", .safe "d.groups only ever stores *group values (Grouping is its only writer)"⟩,
  ⟨"dkg.pdkg.GetGroupPublicPoly|typeassert|g.(*group)", "", .safe "d.groups only ever stores *group values (Grouping is its only writer)"⟩,
  ⟨"dkg.pdkg.GetShareSecurity|deref|dks.Share", "in:dks != nil", .flag "secNil"⟩,
  ⟨"dkg.pdkg.GetShareSecurity|typeassert|g.(*group)", "", .safe "d.groups only ever stores *group values (Grouping is its only writer)"⟩,
  ⟨"dkg.pdkg.Grouping|index|selfPubcs[0]", "", .safe "fanOut is called with size 2"⟩,
  ⟨"dkg.pdkg.Grouping|index|selfPubcs[1]", "", .safe "fanOut is called with size 2"⟩,
  ⟨"dkg.pdkg.Loop|close|close(req.reply)", "", .model "expire (sessStep .expire): the sweep closes the reply channel of a registration that is in the map and deletes it in the same step; registrations in the map have open, pairwise distinct channels (SessInv), so never a second close (session_layer_total)"⟩,
  ⟨"dkg.pdkg.Loop|typeassert|req.(request)", "ok", .guarded⟩,
  ⟨"dkg.sendToMembers|close|close(errc)", "defer; made:errc", .guarded⟩,
  ⟨"dkg.sendToMembers|typeassert|msg.(proto.Message)", "ok", .guarded⟩,
  ⟨"dosnode.DosNode.handleCR|callpanics|rand.Int(rand.Reader, randSeed)", "fix:randSeed.Cmp(big.NewInt(1)) == -1", .flag "crRand"⟩,
  ⟨"dosnode.DosNode.handleCR|deref|*hash", "", .safe "byte32 of the 32-byte Keccak digest is non-nil (byte32Len)"⟩,
  ⟨"dosnode.DosNode.handleCR|deref|cr.Cid", "", .safe "event structs are built by the contract binding in onchain: non-nil"⟩,
  ⟨"dosnode.DosNode.handleCR|deref|cr.CommitDuration.Uint64", "", .model "payloadStep / handleQueryPre / handleCR: nil event field — unreachable for translated events: every payload field is a verbatim copy of a field the ABI decoder filled (event_flow_matches, chain_events_total); the branch itself is confirmed against the code by the nil-field `chain` cases"⟩,
  ⟨"dosnode.DosNode.handleCR|deref|cr.RevealDuration.Uint64", "", .model "payloadStep / handleQueryPre / handleCR: nil event field — unreachable for translated events: every payload field is a verbatim copy of a field the ABI decoder filled (event_flow_matches, chain_events_total); the branch itself is confirmed against the code by the nil-field `chain` cases"⟩,
  ⟨"dosnode.DosNode.handleCR|deref|cr.StartBlock.Uint64", "", .model "payloadStep / handleQueryPre / handleCR: nil event field — unreachable for translated events: every payload field is a verbatim copy of a field the ABI decoder filled (event_flow_matches, chain_events_total); the branch itself is confirmed against the code by the nil-field `chain` cases"⟩,
  ⟨"dosnode.DosNode.handleCR|deref|randSeed.Cmp", "", .model "payloadStep / handleQueryPre / handleCR: nil event field — unreachable for translated events: every payload field is a verbatim copy of a field the ABI decoder filled (event_flow_matches, chain_events_total); the branch itself is confirmed against the code by the nil-field `chain` cases"⟩,
  ⟨"dosnode.DosNode.handleCR|deref|randSeed.Cmp(big.NewInt(1))", "", .model "payloadStep / handleQueryPre / handleCR: nil event field — unreachable for translated events: every payload field is a verbatim copy of a field the ABI decoder filled (event_flow_matches, chain_events_total); the branch itself is confirmed against the code by the nil-field `chain` cases"⟩,
  ⟨"dosnode.DosNode.handleGroupDissolve|deref|gid.Cmp(big.NewInt(1))", "", .safe "FirstPendingGroupId returns err == nil only with the result of a comma-ok assertion to *big.Int on the ABI-decoded getter value; the err != nil return precedes"⟩,
  ⟨"dosnode.DosNode.handleQuery|deref|lastRand.Bytes", "", .model "payloadStep / handleQueryPre / handleCR: nil event field — unreachable for translated events: every payload field is a verbatim copy of a field the ABI decoder filled (event_flow_matches, chain_events_total); the branch itself is confirmed against the code by the nil-field `chain` cases"⟩,
  ⟨"dosnode.DosNode.handleQuery|deref|requestID.Bytes", "", .model "payloadStep / handleQueryPre / handleCR: nil event field — unreachable for translated events: every payload field is a verbatim copy of a field the ABI decoder filled (event_flow_matches, chain_events_total); the branch itself is confirmed against the code by the nil-field `chain` cases"⟩,
  ⟨"dosnode.DosNode.handleQuery|deref|useSeed.Bytes", "", .model "payloadStep / handleQueryPre / handleCR: nil event field — unreachable for translated events: every payload field is a verbatim copy of a field the ABI decoder filled (event_flow_matches, chain_events_total); the branch itself is confirmed against the code by the nil-field `chain` cases"⟩,
  ⟨"dosnode.DosNode.handleQuery|deref|useSeed.Bytes()", "", .model "payloadStep / handleQueryPre / handleCR: nil event field — unreachable for translated events: every payload field is a verbatim copy of a field the ABI decoder filled (event_flow_matches, chain_events_total); the branch itself is confirmed against the code by the nil-field `chain` cases"⟩,
  ⟨"dosnode.DosNode.handleQuery|deref|useSeed.Bytes()#2", "", .model "payloadStep / handleQueryPre / handleCR: nil event field — unreachable for translated events: every payload field is a verbatim copy of a field the ABI decoder filled (event_flow_matches, chain_events_total); the branch itself is confirmed against the code by the nil-field `chain` cases"⟩,
  ⟨"dosnode.DosNode.handleQuery|index|submitterc[0]", "", .safe "choseSubmitter is called with outCount = 2"⟩,
  ⟨"dosnode.DosNode.handleQuery|index|submitterc[0]#2", "", .safe "choseSubmitter is called with outCount = 2"⟩,
  ⟨"dosnode.DosNode.handleQuery|index|submitterc[0]#3", "", .safe "choseSubmitter is called with outCount = 2"⟩,
  ⟨"dosnode.DosNode.handleQuery|index|submitterc[1]", "", .safe "choseSubmitter is called with outCount = 2"⟩,
  ⟨"dosnode.DosNode.handleQuery|slice|nHash[:]", "", .safe "[32]byte array"⟩,
  ⟨"dosnode.DosNode.handleQuery|slice|nHash[:]#2", "", .safe "[32]byte array"⟩,
  ⟨"dosnode.DosNode.handleQuery|slice|nHash[:]#3", "", .safe "[32]byte array"⟩,
  ⟨"dosnode.DosNode.onchainLoop|deref|balance.Cmp(big.NewFloat(0.1))", "", .safe "Balance returns err == nil only with the *big.Float GetBalance computed; the err != nil branch continues"⟩,
  ⟨"dosnode.DosNode.onchainLoop|deref|content.CommitDuration.String", "", .safe "(*big.Int).String is nil-safe (prints <nil>)"⟩,
  ⟨"dosnode.DosNode.onchainLoop|deref|content.RevealDuration.String", "", .safe "(*big.Int).String is nil-safe (prints <nil>)"⟩,
  ⟨"dosnode.DosNode.onchainLoop|deref|content.StartBlock.String", "", .safe "(*big.Int).String is nil-safe (prints <nil>)"⟩,
  ⟨"dosnode.DosNode.onchainLoop|deref|content.StartBlock.String#2", "", .safe "(*big.Int).String is nil-safe (prints <nil>)"⟩,
  ⟨"dosnode.DosNode.onchainLoop|mapwrite|inactiveNodes[event.NodeID]", "made:inactiveNodes", .guarded⟩,
  ⟨"dosnode.DosNode.onchainLoop|mapwrite|inactiveNodes[event.NodeID]#2", "made:inactiveNodes", .guarded⟩,
  ⟨"dosnode.DosNode.onchainLoop|mapwrite|inactiveNodes[nodeID]", "made:inactiveNodes", .guarded⟩,
  ⟨"dosnode.DosNode.onchainLoop|mapzero|inactiveNodes[event.NodeID].IsZero", "", .safe "method of the zero time.Time"⟩,
  ⟨"dosnode.DosNode.queryLoop|close|close(req.reply)", "", .safe "channel life-cycle of the collector is C14's (F15)"⟩,
  ⟨"dosnode.DosNode.queryLoop|ifacenil|req.ctx.Done()", "", .safe "watchdog: req ranges over registered requests, whose ctx is set by dispatchSign"⟩,
  ⟨"dosnode.DosNode.queryLoop|ifacenil|req.ctx.Done()#2", "", .safe "req is the comma-ok result of the map read two lines above (qloopOk)"⟩,
  ⟨"dosnode.DosNode.queryLoop|ifacenil|req.ctx.Done()#3", "", .safe "req was just received from the local registration channel"⟩,
  ⟨"dosnode.DosNode.queryLoop|mapwrite|bufSign[req.requestID]", "made:bufSign", .guarded⟩,
  ⟨"dosnode.DosNode.queryLoop|mapwrite|bufSign[requestID]", "made:bufSign", .guarded⟩,
  ⟨"dosnode.DosNode.queryLoop|mapwrite|reqSign[req.requestID]", "made:reqSign", .guarded⟩,
  ⟨"dosnode.DosNode.queryLoop|mapzero|bufSign[req.requestID]", "read", .guarded⟩,
  ⟨"dosnode.DosNode.queryLoop|mapzero|reqSign[requestID]", "ok", .flag "qloopOk"⟩,
  ⟨"dosnode.DosNode.queryLoop|typeassert|msg.Msg.Message.(*vss.Signature)", "ok", .flag "qloopCast"⟩,
  ⟨"dosnode.byte32|index|s[0]", "in:len(a) <= len(s)", .flag "byte32Len"⟩,
  ⟨"dosnode.choseSubmitter|close|close(errc)", "defer; made:errc", .guarded⟩,
  ⟨"dosnode.choseSubmitter|close|close(out)", "", .safe "out ranges over the channels this function made, each closed once after the sends"⟩,
  ⟨"dosnode.choseSubmitter|deref|lastSysRand.Uint64", "", .safe "reached after handleQuery called lastRand.Bytes() on the same pointer (handleQueryPre: that site fails first)"⟩,
  ⟨"dosnode.choseSubmitter|deref|lastSysRand.Uint64()", "", .safe "reached after handleQuery called lastRand.Bytes() on the same pointer (handleQueryPre: that site fails first)"⟩,
  ⟨"dosnode.choseSubmitter|div|lastSysRand.Uint64() % uint64(len(ids))", "", .cross "dosnode.DosNode.groupInfo" "len(ids) == 0 || pubPoly == nil || sec == nil" "groupInfoIds"⟩,
  ⟨"dosnode.choseSubmitter|index|ids[submitter]", "", .safe "submitter = x % len(ids) < len(ids)"⟩,
  ⟨"dosnode.dispatchSign|close|close(out)", "made:out", .safe "channel life-cycle of dispatchSign and the collector is C14\'s (F15, repaired in aee7ef3): closed on exactly one of its exits"⟩,
  ⟨"dosnode.dispatchSign|close|close(out)#2", "made:out", .safe "channel life-cycle of dispatchSign and the collector is C14\'s (F15, repaired in aee7ef3): closed on exactly one of its exits"⟩,
  ⟨"dosnode.dispatchSign|close|close(out)#3", "made:out", .safe "channel life-cycle of dispatchSign and the collector is C14\'s (F15, repaired in aee7ef3): closed on exactly one of its exits"⟩,
  ⟨"dosnode.dispatchSign|close|close(out)#4", "made:out", .safe "channel life-cycle of dispatchSign and the collector is C14\'s (F15, repaired in aee7ef3): closed on exactly one of its exits"⟩,
  ⟨"dosnode.dispatchSign|close|close(out)#5", "made:out", .safe "channel life-cycle of dispatchSign and the collector is C14\'s (F15, repaired in aee7ef3): closed on exactly one of its exits"⟩,
  ⟨"dosnode.dispatchSign|close|close(out)#6", "made:out", .safe "channel life-cycle of dispatchSign and the collector is C14\'s (F15, repaired in aee7ef3): closed on exactly one of its exits"⟩,
  ⟨"dosnode.dispatchSign|close|close(out)#7", "made:out", .safe "channel life-cycle of dispatchSign and the collector is C14\'s (F15, repaired in aee7ef3): closed on exactly one of its exits (7f58072: the exit without an own share closes and returns)"⟩,
  ⟨"dosnode.genQueryResult|close|close(errc)", "defer; made:errc", .guarded⟩,
  ⟨"dosnode.genQueryResult|close|close(out)", "defer; made:out", .guarded⟩,
  ⟨"dosnode.genSysRandom|close|close(out)", "defer; made:out", .guarded⟩,
  ⟨"dosnode.genUserRandom|close|close(out)", "defer; made:out", .guarded⟩,
  ⟨"dosnode.getBootIps|deref|client.Do(req)", "after:err != nil", .flag "bootReq"⟩,
  ⟨"dosnode.getBootIps|index|nodeIPs[i]", "for:i < len(strlist)-1", .guarded⟩,
  ⟨"dosnode.getBootIps|index|strlist[i]", "for:i < len(strlist)-1", .guarded⟩,
  ⟨"dosnode.getBootIps|make|make([]string, len(strlist)-1)", "", .safe "strings.Split returns at least one element: the length is >= 0"⟩,
  ⟨"dosnode.padOrTrim|make|make([]byte, size)", "after:l == size; after:l > size", .safe "size is the constant randNumberSize at the only call site, and l < size here"⟩,
  ⟨"dosnode.padOrTrim|slice|bb[l-size:]", "after:l == size; in:l > size", .safe "l > size"⟩,
  ⟨"dosnode.padOrTrim|slice|tmp[size-l:]", "after:l == size; after:l > size", .safe "l < size"⟩,
  ⟨"dosnode.recoverSign|close|close(errc)", "defer; made:errc", .guarded⟩,
  ⟨"dosnode.recoverSign|close|close(out)", "defer; made:out", .guarded⟩,
  ⟨"dosnode.recoverSign|deref|own.Content", "else:own == nil", .guarded⟩,
  ⟨"dosnode.recoverSign|deref|own.Index", "else:own == nil", .guarded⟩,
  ⟨"dosnode.recoverSign|deref|sign.Content", "or:sign == nil || sign.Signature == nil", .flag "rsNil"⟩,
  ⟨"dosnode.recoverSign|deref|sign.Content#2", "after:sign == nil || sign.Signature == nil || sign.Content == nil", .flag "rsNil"⟩,
  ⟨"dosnode.recoverSign|deref|sign.Content#3", "after:sign == nil || sign.Signature == nil || sign.Content == nil", .flag "rsNil"⟩,
  ⟨"dosnode.recoverSign|deref|sign.Content#4", "after:sign == nil || sign.Signature == nil || sign.Content == nil", .flag "rsNil"⟩,
  ⟨"dosnode.recoverSign|deref|sign.Content#5", "after:sign == nil || sign.Signature == nil || sign.Content == nil", .flag "rsNil"⟩,
  ⟨"dosnode.recoverSign|deref|sign.Content#6", "after:sign == nil || sign.Signature == nil || sign.Content == nil", .flag "rsNil"⟩,
  ⟨"dosnode.recoverSign|deref|sign.Index", "after:sign == nil || sign.Signature == nil || sign.Content == nil", .flag "rsNil"⟩,
  ⟨"dosnode.recoverSign|deref|sign.Index#2", "after:sign == nil || sign.Signature == nil || sign.Content == nil", .flag "rsNil"⟩,
  ⟨"dosnode.recoverSign|deref|sign.RequestId", "after:sign == nil || sign.Signature == nil || sign.Content == nil", .flag "rsNil"⟩,
  ⟨"dosnode.recoverSign|deref|sign.Signature", "or:sign == nil", .flag "rsNil"⟩,
  ⟨"dosnode.recoverSign|deref|sign.Signature#2", "after:sign == nil || sign.Signature == nil || sign.Content == nil", .flag "rsNil"⟩,
  ⟨"dosnode.recoverSign|deref|sign.ToBigInt", "after:sign == nil || sign.Signature == nil || sign.Content == nil", .flag "rsNil"⟩,
  ⟨"dosnode.recoverSign|deref|sign.ToBigInt()", "after:sign == nil || sign.Signature == nil || sign.Content == nil", .flag "rsNil"⟩,
  ⟨"dosnode.recoverSign|make|make([]byte, t)", "after:sign == nil || sign.Signature == nil || sign.Content == nil; after:t < 0", .flag "rsMake"⟩,
  ⟨"dosnode.reportQueryResult|close|close(errc)", "defer; made:errc", .guarded⟩,
  ⟨"dosnode.unique|mapwrite|keys[entry]", "made:keys", .guarded⟩,
  ⟨"dosnode.xmlDepthExceeds|deref|n.FirstChild", "", .safe "n is non-nil: the loop runs while n != nil and n is only ever root (non-nil: xmlquery.Parse succeeded), a FirstChild that was tested non-nil, a non-nil NextSibling or the Parent of a node below root"⟩,
  ⟨"dosnode.xmlDepthExceeds|deref|n.FirstChild#2", "", .safe "same n as the test one line above"⟩,
  ⟨"dosnode.xmlDepthExceeds|deref|n.NextSibling", "", .safe "n is a node of the tree below root (non-nil, see n.FirstChild)"⟩,
  ⟨"dosnode.xmlDepthExceeds|deref|n.NextSibling#2", "", .safe "reached only with n != root after the climb stopped at a node whose NextSibling is non-nil"⟩,
  ⟨"dosnode.xmlDepthExceeds|deref|n.Parent", "", .safe "n != root and n was reached from root by child / sibling links, so it has a parent inside the tree"⟩,
  ⟨"onchain.crTable[SubscribeCommitrevealLogStartCommitreveal]|close|close(errc)", "defer; made:errc", .guarded⟩,
  ⟨"onchain.crTable[SubscribeCommitrevealLogStartCommitreveal]|close|close(out)", "defer; made:out", .guarded⟩,
  ⟨"onchain.crTable[SubscribeCommitrevealLogStartCommitreveal]|close|close(transitChan)", "defer; made:transitChan", .guarded⟩,
  ⟨"onchain.ethAdaptor.DisconnectWs|index|e.wsCancels[idx]", "", .model "chainStep .errv: idx is the Idx of an *OnchainError a table entry built with getWsIndex(ctx) of the websocket context Connect appended at that position together with its cancel function (same length); errors are drained before Connect resets the slices (chain_events_total: idx < nWs)"⟩,
  ⟨"onchain.ethAdaptor.DisconnectWs|index|e.wsCancels[idx]#2", "in:e.wsCancels[idx] != nil", .safe "same index as the line above"⟩,
  ⟨"onchain.ethAdaptor.SubscribeEvent|index|crTable[subscribeType]", "in:subscribeType >= SubscribeCommitrevealLogStartCommitreveal", .safe "subscribeType comes from onchainLoop's literal list; every element has a table entry (event_flow_matches: flowSubscribed)"⟩,
  ⟨"onchain.ethAdaptor.SubscribeEvent|index|e.wsCrs[i]", "for:i < len(e.wsCrs)", .guarded⟩,
  ⟨"onchain.ethAdaptor.SubscribeEvent|index|e.wsCrs[i]#2", "for:i < len(e.wsCrs); after:e.wsCrs[i] == nil || e.wsCtxes[i] == nil", .guarded⟩,
  ⟨"onchain.ethAdaptor.SubscribeEvent|index|e.wsCtxes[i]", "for:i < len(e.wsCrs); or:e.wsCrs[i] == nil", .guarded⟩,
  ⟨"onchain.ethAdaptor.SubscribeEvent|index|e.wsCtxes[i]#2", "for:i < len(e.wsCrs); after:e.wsCrs[i] == nil || e.wsCtxes[i] == nil", .guarded⟩,
  ⟨"onchain.ethAdaptor.SubscribeEvent|index|e.wsCtxes[i]#3", "for:i < len(e.wsCrs); after:e.wsCrs[i] == nil || e.wsCtxes[i] == nil", .guarded⟩,
  ⟨"onchain.ethAdaptor.SubscribeEvent|index|e.wsCtxes[i]#4", "for:i < len(e.wsProxies); or:e.wsProxies[i] == nil", .guarded⟩,
  ⟨"onchain.ethAdaptor.SubscribeEvent|index|e.wsCtxes[i]#5", "for:i < len(e.wsProxies); after:e.wsProxies[i] == nil || e.wsCtxes[i] == nil", .guarded⟩,
  ⟨"onchain.ethAdaptor.SubscribeEvent|index|e.wsCtxes[i]#6", "for:i < len(e.wsProxies); after:e.wsProxies[i] == nil || e.wsCtxes[i] == nil", .guarded⟩,
  ⟨"onchain.ethAdaptor.SubscribeEvent|index|e.wsProxies[i]", "for:i < len(e.wsProxies)", .guarded⟩,
  ⟨"onchain.ethAdaptor.SubscribeEvent|index|e.wsProxies[i]#2", "for:i < len(e.wsProxies); after:e.wsProxies[i] == nil || e.wsCtxes[i] == nil", .guarded⟩,
  ⟨"onchain.ethAdaptor.SubscribeEvent|index|proxyTable[subscribeType]", "else:subscribeType >= SubscribeCommitrevealLogStartCommitreveal", .safe "subscribeType comes from onchainLoop's literal list; every element has a table entry (event_flow_matches: flowSubscribed)"⟩,
  ⟨"onchain.firstEvent|close|close(out)", "defer; made:out", .guarded⟩,
  ⟨"onchain.firstEvent|mapwrite|visited[identity]", "made:visited", .guarded⟩,
  ⟨"onchain.firstEvent|slice|content.Raw.TxHash[:]", "", .safe "[32]byte array"⟩,
  ⟨"onchain.firstEvent|slice|logIndex[:]", "", .safe "[8]byte array"⟩,
  ⟨"onchain.firstEvent|slice|logIndex[:]#2", "", .safe "[8]byte array"⟩,
  ⟨"onchain.firstEvent|slice|nHash[:]", "", .safe "[32]byte array"⟩,
  ⟨"onchain.firstEvent|typeassert|event.(*LogCommon)", "ok", .flag "feCast"⟩,
  ⟨"onchain.getIndex|typeassert|v.(int)", "ok", .guarded⟩,
  ⟨"onchain.getWsIndex|typeassert|v.(int)", "ok", .guarded⟩,
  ⟨"onchain.mergeError|close|close(out)", "made:out", .safe "closed once, by the goroutine that waits for all forwarders (channel plumbing, C14)"⟩,
  ⟨"onchain.merge|close|close(out)", "made:out", .safe "closed once, by the goroutine that waits for all forwarders (channel plumbing, C14)"⟩,
  ⟨"onchain.proxyTable[SubscribeLogGroupDissolve]|close|close(errc)", "defer; made:errc", .guarded⟩,
  ⟨"onchain.proxyTable[SubscribeLogGroupDissolve]|close|close(out)", "defer; made:out", .guarded⟩,
  ⟨"onchain.proxyTable[SubscribeLogGroupDissolve]|close|close(transitChan)", "defer; made:transitChan", .guarded⟩,
  ⟨"onchain.proxyTable[SubscribeLogGrouping]|close|close(errc)", "defer; made:errc", .guarded⟩,
  ⟨"onchain.proxyTable[SubscribeLogGrouping]|close|close(out)", "defer; made:out", .guarded⟩,
  ⟨"onchain.proxyTable[SubscribeLogGrouping]|close|close(transitChan)", "defer; made:transitChan", .guarded⟩,
  ⟨"onchain.proxyTable[SubscribeLogPublicKeyAccepted]|close|close(errc)", "defer; made:errc", .guarded⟩,
  ⟨"onchain.proxyTable[SubscribeLogPublicKeyAccepted]|close|close(out)", "defer; made:out", .guarded⟩,
  ⟨"onchain.proxyTable[SubscribeLogPublicKeyAccepted]|close|close(transitChan)", "defer; made:transitChan", .guarded⟩,
  ⟨"onchain.proxyTable[SubscribeLogRequestUserRandom]|close|close(errc)", "defer; made:errc", .guarded⟩,
  ⟨"onchain.proxyTable[SubscribeLogRequestUserRandom]|close|close(out)", "defer; made:out", .guarded⟩,
  ⟨"onchain.proxyTable[SubscribeLogRequestUserRandom]|close|close(transitChan)", "defer; made:transitChan", .guarded⟩,
  ⟨"onchain.proxyTable[SubscribeLogUpdateRandom]|close|close(errc)", "defer; made:errc", .guarded⟩,
  ⟨"onchain.proxyTable[SubscribeLogUpdateRandom]|close|close(out)", "defer; made:out", .guarded⟩,
  ⟨"onchain.proxyTable[SubscribeLogUpdateRandom]|close|close(transitChan)", "defer; made:transitChan", .guarded⟩,
  ⟨"onchain.proxyTable[SubscribeLogUrl]|close|close(errc)", "defer; made:errc", .guarded⟩,
  ⟨"onchain.proxyTable[SubscribeLogUrl]|close|close(out)", "defer; made:out", .guarded⟩,
  ⟨"onchain.proxyTable[SubscribeLogUrl]|close|close(transitChan)", "defer; made:transitChan", .guarded⟩,
  ⟨"p2p.client.decodePipe|close|close(receivedMsg)", "defer; made:receivedMsg", .guarded⟩,
  ⟨"p2p.client.decodePipe|close|close(replyMsg)", "defer; made:replyMsg", .guarded⟩,
  ⟨"p2p.client.decodePipe|deref|pa.GetAnything().Value", "", .cross "p2p.decodeBytes" "pa.GetAnything() == nil" "anyNil"⟩,
  ⟨"p2p.client.decryptPipe|callpanics|aesgcm.Open(nil, c.dhNonce, text, nil)", "", .safe "c.dhNonce = dhBytes[32:44] (12 bytes) is set together with the 32-byte c.dhKey; with no key aes.NewCipher fails first (ridLen)"⟩,
  ⟨"p2p.client.decryptPipe|close|close(out)", "defer; made:out", .guarded⟩,
  ⟨"p2p.client.dispatch|close|close(out)", "defer; made:out", .guarded⟩,
  ⟨"p2p.client.dispatch|deref|p2pRequest.ctx", "in:p2pRequest != nil", .flag "dispReplyNil"⟩,
  ⟨"p2p.client.dispatch|deref|p2pRequest.replyResult", "in:p2pRequest != nil", .flag "dispReplyNil"⟩,
  ⟨"p2p.client.dispatch|mapwrite|requests[nonce]", "made:requests", .guarded⟩,
  ⟨"p2p.client.dispatch|mapzero|requests[msg.RequestNonce]", "read", .guarded⟩,
  ⟨"p2p.client.readPipe|close|close(out)", "defer; made:out", .guarded⟩,
  ⟨"p2p.client.receiveID|close|close(errc)", "defer; made:errc", .guarded⟩,
  ⟨"p2p.client.receiveID|slice|dhBytes[0:32]", "after:len(dhBytes) < 44", .flag "ridLen"⟩,
  ⟨"p2p.client.receiveID|slice|dhBytes[32:44]", "after:len(dhBytes) < 44", .flag "ridLen"⟩,
  ⟨"p2p.client.receiveID|typeassert|ptr.Message.(*ID)", "ok", .flag "ridCast"⟩,
  ⟨"p2p.decodeBytes|deref|pa.GetAnything().Value", "after:pa.GetAnything() == nil", .flag "anyNil"⟩,
  ⟨"p2p.readFrom|make|make([]byte, headerSize)", "", .safe "constant"⟩,
  ⟨"p2p.readFrom|make|make([]byte, size)", "after:size > msgSizeLimit || size <= 0", .flag "readSize"⟩,
  ⟨"p2p.readFrom|slice|buffer[totalContentBytesRead:]", "for:totalContentBytesRead < int(size) && err == nil", .safe "loop condition: offset < len"⟩,
  ⟨"p2p.readFrom|slice|header[totalBytesRead:]", "for:totalBytesRead < headerSize && err == nil", .safe "loop condition: offset < len"⟩,
  ⟨"p2p.server.callHandler|deref|c.close", "after:c == nil", .guarded⟩,
  ⟨"p2p.server.callHandler|deref|c.conn", "in:c != nil", .flag "callRemoveNil"⟩,
  ⟨"p2p.server.callHandler|deref|c.remoteID", "after:c == nil", .guarded⟩,
  ⟨"p2p.server.callHandler|deref|c.remoteID#2", "after:c == nil", .guarded⟩,
  ⟨"p2p.server.callHandler|deref|c.send", "", .safe "c is the entry found non-nil by the enclosing `if c = clients[..]; c == nil`, or the client handleCallReq just returned non-nil (the nil case continues)"⟩,
  ⟨"p2p.server.callHandler|mapwrite|clients[string(req.id)]", "made:clients", .guarded⟩,
  ⟨"p2p.server.callHandler|mapzero|clients[string(id)]", "read", .guarded⟩,
  ⟨"p2p.server.eventDispatch|close|close(eventCh)", "", .safe "shutdown path: each subscription channel once"⟩,
  ⟨"p2p.server.eventDispatch|close|close(subscriptions[subID])", "", .safe "local API: UnSubscribeEvent with the id SubscribeEvent returned"⟩,
  ⟨"p2p.server.eventDispatch|mapwrite|subscriptions[sub.subID]", "made:subscriptions", .guarded⟩,
  ⟨"p2p.server.messageDispatch|close|close(outch)", "", .safe "shutdown path, nil-checked"⟩,
  ⟨"p2p.server.messageDispatch|ifacenil|reflect.TypeOf(msg.Msg.Message).String()", "after:msg.Msg.Message == nil", .flag "mdNil"⟩,
  ⟨"p2p.server.messageDispatch|index|messagetype[0]", "and:len(messagetype) > 0", .guarded⟩,
  ⟨"p2p.server.messageDispatch|mapwrite|subscriptions[sub.msgType]", "made:subscriptions", .guarded⟩,
  ⟨"p2p.server.messageDispatch|mapzero|subscriptions[messagetype]", "read", .guarded⟩,
  ⟨"p2p.server.messageDispatch|slice|messagetype[1:]", "in:len(messagetype) > 0 && messagetype[0] == '*'", .guarded⟩,
  ⟨"p2p.server.receiveHandler|deref|c.close", "", .safe "c is the client handed over by the accept goroutine after a finished handshake (non-nil); the nil comparison in this function is about the shadowing c of the removal branch"⟩,
  ⟨"p2p.server.receiveHandler|deref|c.remoteID", "", .safe "c is the client handed over by the accept goroutine after a finished handshake (non-nil); the nil comparison in this function is about the shadowing c of the removal branch"⟩,
  ⟨"p2p.server.receiveHandler|deref|c.remoteID#2", "", .safe "c is the client handed over by the accept goroutine after a finished handshake (non-nil); the nil comparison in this function is about the shadowing c of the removal branch"⟩,
  ⟨"p2p.server.receiveHandler|deref|client.close", "", .safe "client ranges over the values of clients, which are only stored non-nil"⟩,
  ⟨"p2p.server.receiveHandler|deref|client.send", "after:client == nil", .guarded⟩,
  ⟨"p2p.server.receiveHandler|mapwrite|clients[string(c.remoteID)]", "made:clients", .guarded⟩,
  ⟨"p2p.server.receiveHandler|mapzero|clients[string(id)]", "read", .guarded⟩,
  ⟨"p2p.server.receiveHandler|mapzero|clients[string(req.id)]", "read", .guarded⟩,
  ⟨"share.NewPriPoly|index|coeffs[0]", "", .safe "t ≥ 2: NewDealer checks validT before NewPriPoly"⟩,
  ⟨"share.NewPriPoly|index|coeffs[0]#2", "", .safe "t ≥ 2: NewDealer checks validT before NewPriPoly"⟩,
  ⟨"share.NewPriPoly|index|coeffs[0]#3", "", .safe "t ≥ 2: NewDealer checks validT before NewPriPoly"⟩,
  ⟨"share.NewPriPoly|index|coeffs[i]", "for:i < t", .safe "index bounded by the enclosing loop condition / range"⟩,
  ⟨"share.NewPriPoly|make|make([]kyber.Scalar, t)", "", .safe "t ≥ 2: NewDealer checks validT before NewPriPoly"⟩,
  ⟨"share.PriPoly.Commit|index|commits[i]", "range:commits", .guarded⟩,
  ⟨"share.PriPoly.Commit|index|p.coeffs[i]", "", .safe "commits made with len(p.coeffs)"⟩,
  ⟨"share.PriPoly.Commit|make|make([]kyber.Point, p.Threshold())", "", .safe "a length"⟩,
  ⟨"share.PriPoly.Eval|index|p.coeffs[j]", "for:j >= 0", .safe "index bounded by the enclosing loop condition / range"⟩,
  ⟨"share.PubPoly.Add|index|commits[i]", "range:commits", .guarded⟩,
  ⟨"share.PubPoly.Add|index|p.commits[i]", "", .safe "commits made with p.Threshold(); q has the same threshold (checked)"⟩,
  ⟨"share.PubPoly.Add|index|q.commits[i]", "", .safe "commits made with p.Threshold(); q has the same threshold (checked)"⟩,
  ⟨"share.PubPoly.Add|make|make([]kyber.Point, p.Threshold())", "after:p.g.String() != q.g.String(); after:p.Threshold() != q.Threshold()", .safe "a length"⟩,
  ⟨"share.PubPoly.Commit|index|p.commits[0]", "", .safe "the group polynomial sums the QUAL deals, which include the own deal with t ≥ 2 commitments; PubPoly.Add rejects different lengths"⟩,
  ⟨"share.PubPoly.Eval|index|p.commits[j]", "for:j >= 0", .safe "index bounded by the enclosing loop condition / range"⟩,
  ⟨"share.RecoverCommit|callpanics|num.Div(num, den)", "", .cross "tbls.Recover" "dup || i >= n" "recoverDedup"⟩,
  ⟨"share.RecoverCommit|deref|s.I", "or:s == nil || s.V == nil", .guarded⟩,
  ⟨"share.RecoverCommit|deref|s.I#2", "or:s == nil || s.V == nil || s.I < 0", .guarded⟩,
  ⟨"share.RecoverCommit|deref|s.I#3", "after:s == nil || s.V == nil || s.I < 0 || n <= s.I", .guarded⟩,
  ⟨"share.RecoverCommit|deref|s.I#4", "after:s == nil || s.V == nil || s.I < 0 || n <= s.I", .guarded⟩,
  ⟨"share.RecoverCommit|deref|s.I#5", "after:s == nil || s.V == nil || s.I < 0 || n <= s.I", .guarded⟩,
  ⟨"share.RecoverCommit|ifacenil|shares[i].V", "", .safe "entries with V == nil are not put into x"⟩,
  ⟨"share.RecoverCommit|index|shares[i]", "", .safe "i ranges over keys of x, which are positions of shares"⟩,
  ⟨"share.RecoverCommit|mapwrite|seen[s.I]", "made:seen", .guarded⟩,
  ⟨"share.RecoverCommit|mapwrite|x[i]", "made:x", .guarded⟩,
  ⟨"tbls.Recover|ifacenil|public.Eval(i).V", "", .safe "Eval always returns a point"⟩,
  ⟨"tbls.Recover|mapwrite|seen[i]", "made:seen", .guarded⟩,
  ⟨"tbls.SigShare.Value|deref|*s", "", .safe "receiver is the address of a local"⟩,
  ⟨"tbls.SigShare.Value|slice|[]byte(*s)[2:]", "", .cross "tbls.Recover" "err != nil" "sigIdxLen"⟩,
  ⟨"tbls.sliceUniqMap|index|s[j]", "", .safe "j ≤ position of v in s"⟩,
  ⟨"tbls.sliceUniqMap|mapwrite|seen[string(v)]", "made:seen", .guarded⟩,
  ⟨"tbls.sliceUniqMap|slice|s[:j]", "", .safe "j ≤ len(s)"⟩,
  ⟨"vss.Deal.UnmarshalBinary|index|constructors[reflect.TypeOf(&point).Elem()]", "", .safe "write into the map made one line above"⟩,
  ⟨"vss.Deal.UnmarshalBinary|index|constructors[reflect.TypeOf(&secret).Elem()]", "", .safe "write into the map made one line above"⟩,
  ⟨"vss.Dealer.EncryptedDeals|index|deals[i]", "", .safe "deals is made with len(d.verifiers), the slice i ranges over"⟩,
  ⟨"vss.Dealer.EncryptedDeal|callpanics|gcm.Seal(nil, nonce, dealBuff, d.hkdfContext)", "", .safe "nonce is make([]byte, gcm.NonceSize()) two statements earlier"⟩,
  ⟨"vss.Dealer.EncryptedDeal|index|d.deals[i]", "", .safe "after findPub(d.verifiers, i) succeeded: i < len(d.verifiers) = len(d.deals) (NewDealer makes both from the same list)"⟩,
  ⟨"vss.Dealer.EncryptedDeal|make|make([]byte, gcm.NonceSize())", "", .safe "NonceSize of the standard GCM is the constant 12"⟩,
  ⟨"vss.Dealer.ProcessResponse|deref|r.Status", "", .safe "r passed d.verifyResponse, which dereferenced it already; nil is rejected in dkg ProcessResponse (respNil)"⟩,
  ⟨"vss.Dealer.ProcessResponse|index|d.deals[int(r.Index)]", "", .cross "vss.findPub" "iidx >= len(verifiers)" "findPubVss"⟩,
  ⟨"vss.Justification.Hash|deref|j.Deal.MarshalBinary", "", .safe "own justification: Deal is d.deals[i], set by NewDealer"⟩,
  ⟨"vss.NewDealer|index|d.deals[i]", "", .safe "deals made with len(d.verifiers), i ranges over d.verifiers"⟩,
  ⟨"vss.Signature.ToBigInt|slice|m.Signature[0:32]", "after:len(m.Signature) < 32", .flag "toBigLen"⟩,
  ⟨"vss.Signature.ToBigInt|slice|m.Signature[32:]", "after:len(m.Signature) < 32", .flag "toBigLen"⟩,
  ⟨"vss.Verifier.ProcessEncryptedDeal|deref|d.SecShare.I", "after:d.SecShare == nil || d.SecShare.V == nil", .flag "secShareNil"⟩,
  ⟨"vss.Verifier.ProcessEncryptedDeal|deref|d.SecShare.V", "or:d.SecShare == nil", .flag "secShareNil"⟩,
  ⟨"vss.Verifier.decryptDeal|callpanics|gcm.Open(nil, e.Nonce, e.Cipher, v.hkdfContext)", "after:len(e.Nonce) != gcm.NonceSize()", .flag "nonceLen"⟩,
  ⟨"vss.Verifier.decryptDeal|deref|e.DHKey", "after:e == nil", .flag "encNil"⟩,
  ⟨"vss.aggregator.DealCertified|deref|a.EnoughApprovals", "after:a == nil", .guarded⟩,
  ⟨"vss.aggregator.DealCertified|deref|a.badDealer", "after:a == nil", .guarded⟩,
  ⟨"vss.aggregator.DealCertified|deref|a.responses", "after:a == nil", .guarded⟩,
  ⟨"vss.aggregator.DealCertified|deref|a.verifiers", "after:a == nil", .guarded⟩,
  ⟨"vss.aggregator.VerifyDeal|deref|d.SecShare", "or:d == nil", .flag "shareVNil"⟩,
  ⟨"vss.aggregator.VerifyDeal|deref|d.SecShare.V", "or:d == nil || d.SecShare == nil", .flag "shareVNil"⟩,
  ⟨"vss.aggregator.VerifyDeal|ifacenil|fi.V", "after:d == nil || d.SecShare == nil || d.SecShare.V == nil", .flag "shareVNil"⟩,
  ⟨"vss.aggregator.VerifyDeal|ifacenil|pubShare.V", "", .safe "Eval always returns a point"⟩,
  ⟨"vss.aggregator.addResponse|deref|r.Index", "", .safe "callers pass a response that passed verifyResponse or one they just built"⟩,
  ⟨"vss.aggregator.addResponse|mapwrite|a.responses[r.Index]", "", .safe "map created by make in the same function or in the constructor"⟩,
  ⟨"vss.aggregator.verifyJustification|deref|j.Index", "", .safe "own justification built by Dealer.ProcessResponse"⟩,
  ⟨"vss.aggregator.verifyJustification|mapzero|a.responses[j.Index]", "ok", .guarded⟩,
  ⟨"vss.aggregator.verifyResponse|deref|r.SessionID", "", .cross "dkg.DistKeyGenerator.ProcessResponse" "resp == nil || resp.Response == nil" "respNil"⟩,
  ⟨"vss.findPub|index|verifiers[iidx]", "after:iidx >= len(verifiers)", .flag "findPubVss"⟩,
  ⟨"vss.newAEAD|make|make([]byte, sharedKeyLength)", "", .safe "package constant 32"⟩,
  ⟨"vss.sessionID|ifaceslot|v.MarshalTo(h)", "", .model "newDkg: no empty participant slot after n distinct in-range indices (genDkg_total)"⟩
]

/-- guards that protect a receiver / state component rather than an extracted site -/
def extraConds : List (String × String × String) := [
  ("aggNil", "vss.Verifier.ProcessResponse", "v.aggregator == nil"),
  ("callIdMatch", "p2p.server.callHandler", "string(c.remoteID) != string(req.id)"),
  ("rcDedup", "share.RecoverCommit", "dup"),
  ("parseDepth", "dosnode.dataParse", "jsonDepthExceeds(rawMsg, maxDocumentDepth)"),
  ("parseDepth", "dosnode.dataParse", "xmlDepthExceeds(rawMsgXml, maxDocumentDepth)")
]

def Clause.flagName : Clause → Option String
  | .flag f => some f
  | .cross _ _ f => some f
  | _ => none

/-- table and inventory are both sorted by key, so on an unchanged tree entry i and site i belong together:
the site at the same position is tried first (one comparison), any other tree falls back to the search.
Same result as the plain search; it only spares the kernel ~170 string comparisons per entry. -/
def zipHint : List Entry → List Gen.PanicSites.Site → List (Entry × Option Gen.PanicSites.Site)
  | [], _ => []
  | e :: es, [] => (e, none) :: zipHint es []
  | e :: es, s :: ss => (e, some s) :: zipHint es ss

def siteOf (e : Entry) (hint : Option Gen.PanicSites.Site) : Option Gen.PanicSites.Site :=
  match hint with
  | some s => if s.key == e.key then some s else Gen.PanicSites.sites.find? (fun s => s.key == e.key)
  | none => Gen.PanicSites.sites.find? (fun s => s.key == e.key)

def hinted : List (Entry × Option Gen.PanicSites.Site) := zipHint table Gen.PanicSites.sites

def siteGuard (k : String) : Option String :=
  (Gen.PanicSites.sites.find? (fun s => s.key == k)).map (·.guard)

def hasCond (fn cond : String) : Bool := Gen.PanicSites.conds.any (fun c => c.1 == fn && c.2 == cond)

/-- the guard the table expects for a flagged site is present in the current source -/
def entryHolds (eh : Entry × Option Gen.PanicSites.Site) : Bool :=
  match eh.1.clause with
  | .flag _ => eh.1.guard != "" && (siteOf eh.1 eh.2).map (·.guard) == some eh.1.guard
  | .cross fn cond _ => hasCond fn cond
  | _ => true

/-- (flag, the entry's guard holds) for every flagged entry -/
def flagged : List (String × Bool) :=
  hinted.filterMap (fun eh => eh.1.clause.flagName.map (fun f => (f, entryHolds eh)))

def flagOn (name : String) : Bool :=
  let es := flagged.filter (fun p => p.1 == name)
  let xs := extraConds.filter (fun x => x.1 == name)
  (!es.isEmpty || !xs.isEmpty) && es.all (·.2) && xs.all (fun x => hasCond x.2.1 x.2.2)

/-! ### the way of a chain event (regenerated facts `eventFlow`, `loopSubs`, `loopCases`) -/

/-- what onchainLoop subscribes to, the table entry that serves it, the payload it builds: every field a
verbatim copy of the binding's field (`NodeId`: the addresses' bytes, collected in `participants`) -/
def expectedFlow : List (String × String × String × List (String × String)) := [
  ("SubscribeLogGrouping", "proxyTable", "LogGrouping", [("GroupId", "i.GroupId"), ("NodeId", "participants")]),
  ("SubscribeLogGroupDissolve", "proxyTable", "LogGroupDissolve", [("GroupId", "i.GroupId")]),
  ("SubscribeLogUrl", "proxyTable", "LogUrl", [("QueryId", "i.QueryId"), ("Timeout", "i.Timeout"), ("DataSource", "i.DataSource"), ("Selector", "i.Selector"), ("Randomness", "i.Randomness"), ("DispatchedGroupId", "i.DispatchedGroupId")]),
  ("SubscribeLogUpdateRandom", "proxyTable", "LogUpdateRandom", [("LastRandomness", "i.LastRandomness"), ("DispatchedGroupId", "i.DispatchedGroupId")]),
  ("SubscribeLogRequestUserRandom", "proxyTable", "LogRequestUserRandom", [("RequestId", "i.RequestId"), ("LastSystemRandomness", "i.LastSystemRandomness"), ("UserSeed", "i.UserSeed"), ("DispatchedGroupId", "i.DispatchedGroupId")]),
  ("SubscribeLogPublicKeyAccepted", "proxyTable", "LogPublicKeyAccepted", [("GroupId", "i.GroupId"), ("WorkingGroupSize", "i.NumWorkingGroups")]),
  ("SubscribeCommitrevealLogStartCommitreveal", "crTable", "LogStartCommitReveal", [("Cid", "i.Cid"), ("StartBlock", "i.StartBlock"), ("CommitDuration", "i.CommitDuration"), ("RevealDuration", "i.RevealDuration"), ("RevealThreshold", "i.RevealThreshold")])
]

/-- the wrapper every entry builds: the payload under `log`, the binding's Removed flag -/
def expectedCommon : List (String × String) :=
  [("Tx", "i.Raw.TxHash.Hex()"), ("BlockN", "i.Raw.BlockNumber"), ("Removed", "i.Raw.Removed"), ("Raw", "i.Raw"), ("log", "l")]

/-- the flow of one subscription as found in the source -/
def flowOf (sub table : String) : Option (String × List (String × String) × List (String × String) × List String) :=
  (Gen.PanicSites.eventFlow.find? (fun e => e.1 == table ++ "[" ++ sub ++ "]")).map (·.2)

/-- subscriptions = expected; every one has its entry with exactly the expected payload and wrapper and sends
only `&OnchainError` values; the loop has a case for every payload type and nothing else -/
def flowEntryOK (e : String × String × String × List (String × String)) : Bool :=
  match flowOf e.1 e.2.1 with
  | some (payload, fields, common, errs) =>
    payload == e.2.2.1 && fields == e.2.2.2 && common == expectedCommon && errs.all (· == "&OnchainError")
  | none => false

def flowOK : Bool :=
  Gen.PanicSites.loopSubs == expectedFlow.map (·.1) &&
  expectedFlow.all flowEntryOK &&
  Gen.PanicSites.loopCases.length == expectedFlow.length &&
  expectedFlow.all (fun e => Gen.PanicSites.loopCases.contains ("*onchain." ++ e.2.2.1))

/-- the clean-up a path of the session layer performs, from the regenerated facts: `sessionMap` is the
buffer map and `sessionReq` the registration map in all three functions -/
def cleanOf (path : String) : Clean :=
  match Gen.PanicSites.cleanup.find? (fun p => p.1 == path) with
  | none => ⟨false, false, false⟩
  | some (_, ops) =>
    let kinds := ops.map (·.1)
    { delBuf := ops.any (fun o => o.1 == "delete" && o.2 == "sessionMap"),
      delReq := ops.any (fun o => o.1 == "delete" && o.2 == "sessionReq"),
      closeOnce := (kinds.filter (· == "close")).length == 1 && (kinds.dropWhile (· != "close")).all (· != "send") }

/-- the guard configuration of the code as it is now -/
def Cfg.current : Cfg :=
  { peerClean := cleanOf "dkg.handlePeerMsg", reqClean := cleanOf "dkg.handleRequest", expClean := cleanOf "dkg.Loop", xpubCastSelf := flagOn "xpubCastSelf", xpubCastPeer := flagOn "xpubCastPeer", xpubIdx := flagOn "xpubIdx", gdkgGuard := flagOn "gdkgGuard",
    dealsDkgNil := flagOn "dealsDkgNil", dealsCast := flagOn "dealsCast", respsDkgNil := flagOn "respsDkgNil",
    respsCast := flagOn "respsCast", findPubDkg := flagOn "findPubDkg", respNil := flagOn "respNil",
    respVerOk := flagOn "respVerOk", pubKeyLen := flagOn "pubKeyLen", peerRespNil := flagOn "peerRespNil", encNil := flagOn "encNil",
    nonceLen := flagOn "nonceLen", secShareNil := flagOn "secShareNil", shareVNil := flagOn "shareVNil",
    findPubVss := flagOn "findPubVss", aggNil := flagOn "aggNil", toBigLen := flagOn "toBigLen",
    qloopOk := flagOn "qloopOk", qloopCast := flagOn "qloopCast", rsNil := flagOn "rsNil", rsMake := flagOn "rsMake",
    groupInfoIds := flagOn "groupInfoIds", byte32Len := flagOn "byte32Len", crRand := flagOn "crRand", parseDepth := flagOn "parseDepth", bootReq := flagOn "bootReq", secNil := flagOn "secNil", feCast := flagOn "feCast", evFlow := flowOK,
    sigIdxLen := flagOn "sigIdxLen", recoverDedup := flagOn "recoverDedup", rcDedup := flagOn "rcDedup", anyNil := flagOn "anyNil",
    ridCast := flagOn "ridCast", ridLen := flagOn "ridLen", readSize := flagOn "readSize", mdNil := flagOn "mdNil", dispReplyNil := flagOn "dispReplyNil", callRemoveNil := flagOn "callRemoveNil", callIdMatch := flagOn "callIdMatch",
    listenName := flagOn "listenName", listenCast := flagOn "listenCast", lookupName := flagOn "lookupName" }

/-- exactly three closing statement lists in the session layer: any other one is unaccounted for -/
def cleanupPaths : List String := Gen.PanicSites.cleanup.map (·.1)

/-- inventory differences, for diagnostics (driver op `inv`): new / vanished / re-guarded sites -/
def invDiff : List String :=
  let new := Gen.PanicSites.sites.filter (fun s => !table.any (fun e => e.key == s.key))
  let gone := table.filter (fun e => !Gen.PanicSites.sites.any (fun s => s.key == e.key))
  let reg := Gen.PanicSites.sites.filter (fun s => table.any (fun e => e.key == s.key && e.guard != s.guard))
  new.map (fun s => "+" ++ s.key) ++ gone.map (fun e => "-" ++ e.key) ++ reg.map (fun s => "~" ++ s.key)
    ++ Gen.PanicSites.unlisted.map (fun u => "?" ++ u)

/-- guard classes that are sufficient, by themselves, for a site of the kind they were extracted for -/
def checkableCls : List String := ["nil", "len", "ok", "read", "defer-made", "made"]

/-- every `.guarded` entry has, in the regenerated inventory, a guard of a sufficient class -/
def guardedOK : Bool :=
  hinted.all (fun eh => match eh.1.clause with
    | .guarded => match siteOf eh.1 eh.2 with
      | some s => s.guard == eh.1.guard && checkableCls.contains s.cls
      | none => false
    | _ => true)

/-- (modelled or flagged, safe by extracted guard, safe by prose argument) -/
def classCounts : Nat × Nat × Nat :=
  (table.countP (fun e => match e.clause with | .flag _ | .cross _ _ _ | .model _ => true | _ => false),
   table.countP (fun e => match e.clause with | .guarded => true | _ => false),
   table.countP (fun e => match e.clause with | .safe _ => true | _ => false))

def pairsGen : List (String × String) := Gen.PanicSites.sites.map (fun s => (s.key, s.guard))
def pairsTable : List (String × String) := table.map (fun e => (e.key, e.guard))

end Dos.Handlers

/-
C20 — per-function instances of the packing facts (Proofs/Ed25519Pack.lean) for the five generated functions:
last carry pass leaves 21-bit digits, high limbs are zero, the generated `_store` is the packing `packLo ++ packHi`.
-/
import DosModel.Proofs.Ed25519Load

set_option exponentiation.threshold 600

namespace Dos.Ed25519
open Dos Dos.Gen.Ed25519Sc

theorem scMulAdd_final (a0 a1 a2 a3 a4 a5 a6 a7 a8 a9 a10 a11 b0 b1 b2 b3 b4 b5 b6 b7 b8 b9 b10 b11 c0 c1 c2 c3 c4 c5 c6 c7 c8 c9 c10 c11 : Int) :
    Digits11 (scMulAdd_limbs shrI a0 a1 a2 a3 a4 a5 a6 a7 a8 a9 a10 a11 b0 b1 b2 b3 b4 b5 b6 b7 b8 b9 b10 b11 c0 c1 c2 c3 c4 c5 c6 c7 c8 c9 c10 c11) := by
  final_digits_tac

theorem scMulAdd_hiZero (shr : Shr) (a0 a1 a2 a3 a4 a5 a6 a7 a8 a9 a10 a11 b0 b1 b2 b3 b4 b5 b6 b7 b8 b9 b10 b11 c0 c1 c2 c3 c4 c5 c6 c7 c8 c9 c10 c11 : Int) :
    HiZero (scMulAdd_limbs shr a0 a1 a2 a3 a4 a5 a6 a7 a8 a9 a10 a11 b0 b1 b2 b3 b4 b5 b6 b7 b8 b9 b10 b11 c0 c1 c2 c3 c4 c5 c6 c7 c8 c9 c10 c11) :=
  ⟨rfl, rfl, rfl, rfl, rfl, rfl, rfl, rfl, rfl, rfl, rfl, rfl⟩

theorem scMulAdd_store_eq (shr : Shr) (st : L24) :
    scMulAdd_store shr st = packLo shr st.s0 st.s1 st.s2 st.s3 st.s4 st.s5 st.s6 st.s7 ++ packHi shr st.s8 st.s9 st.s10 st.s11 := by
  unfold_gen; rfl

theorem scMul_final (a0 a1 a2 a3 a4 a5 a6 a7 a8 a9 a10 a11 b0 b1 b2 b3 b4 b5 b6 b7 b8 b9 b10 b11 : Int) :
    Digits11 (scMul_limbs shrI a0 a1 a2 a3 a4 a5 a6 a7 a8 a9 a10 a11 b0 b1 b2 b3 b4 b5 b6 b7 b8 b9 b10 b11) := by
  final_digits_tac

theorem scMul_hiZero (shr : Shr) (a0 a1 a2 a3 a4 a5 a6 a7 a8 a9 a10 a11 b0 b1 b2 b3 b4 b5 b6 b7 b8 b9 b10 b11 : Int) :
    HiZero (scMul_limbs shr a0 a1 a2 a3 a4 a5 a6 a7 a8 a9 a10 a11 b0 b1 b2 b3 b4 b5 b6 b7 b8 b9 b10 b11) :=
  ⟨rfl, rfl, rfl, rfl, rfl, rfl, rfl, rfl, rfl, rfl, rfl, rfl⟩

theorem scMul_store_eq (shr : Shr) (st : L24) :
    scMul_store shr st = packLo shr st.s0 st.s1 st.s2 st.s3 st.s4 st.s5 st.s6 st.s7 ++ packHi shr st.s8 st.s9 st.s10 st.s11 := by
  unfold_gen; rfl

theorem scAdd_final (a0 a1 a2 a3 a4 a5 a6 a7 a8 a9 a10 a11 c0 c1 c2 c3 c4 c5 c6 c7 c8 c9 c10 c11 : Int) :
    Digits11 (scAdd_limbs shrI a0 a1 a2 a3 a4 a5 a6 a7 a8 a9 a10 a11 c0 c1 c2 c3 c4 c5 c6 c7 c8 c9 c10 c11) := by
  final_digits_tac

theorem scAdd_hiZero (shr : Shr) (a0 a1 a2 a3 a4 a5 a6 a7 a8 a9 a10 a11 c0 c1 c2 c3 c4 c5 c6 c7 c8 c9 c10 c11 : Int) :
    HiZero (scAdd_limbs shr a0 a1 a2 a3 a4 a5 a6 a7 a8 a9 a10 a11 c0 c1 c2 c3 c4 c5 c6 c7 c8 c9 c10 c11) :=
  ⟨rfl, rfl, rfl, rfl, rfl, rfl, rfl, rfl, rfl, rfl, rfl, rfl⟩

theorem scAdd_store_eq (shr : Shr) (st : L24) :
    scAdd_store shr st = packLo shr st.s0 st.s1 st.s2 st.s3 st.s4 st.s5 st.s6 st.s7 ++ packHi shr st.s8 st.s9 st.s10 st.s11 := by
  unfold_gen; rfl

theorem scSub_final (a0 a1 a2 a3 a4 a5 a6 a7 a8 a9 a10 a11 c0 c1 c2 c3 c4 c5 c6 c7 c8 c9 c10 c11 : Int) :
    Digits11 (scSub_limbs shrI a0 a1 a2 a3 a4 a5 a6 a7 a8 a9 a10 a11 c0 c1 c2 c3 c4 c5 c6 c7 c8 c9 c10 c11) := by
  final_digits_tac

theorem scSub_hiZero (shr : Shr) (a0 a1 a2 a3 a4 a5 a6 a7 a8 a9 a10 a11 c0 c1 c2 c3 c4 c5 c6 c7 c8 c9 c10 c11 : Int) :
    HiZero (scSub_limbs shr a0 a1 a2 a3 a4 a5 a6 a7 a8 a9 a10 a11 c0 c1 c2 c3 c4 c5 c6 c7 c8 c9 c10 c11) :=
  ⟨rfl, rfl, rfl, rfl, rfl, rfl, rfl, rfl, rfl, rfl, rfl, rfl⟩

theorem scSub_store_eq (shr : Shr) (st : L24) :
    scSub_store shr st = packLo shr st.s0 st.s1 st.s2 st.s3 st.s4 st.s5 st.s6 st.s7 ++ packHi shr st.s8 st.s9 st.s10 st.s11 := by
  unfold_gen; rfl

theorem scReduce_final (s0 s1 s2 s3 s4 s5 s6 s7 s8 s9 s10 s11 s12 s13 s14 s15 s16 s17 s18 s19 s20 s21 s22 s23 : Int) :
    Digits11 (scReduce_limbs shrI s0 s1 s2 s3 s4 s5 s6 s7 s8 s9 s10 s11 s12 s13 s14 s15 s16 s17 s18 s19 s20 s21 s22 s23) := by
  final_digits_tac

theorem scReduce_hiZero (shr : Shr) (s0 s1 s2 s3 s4 s5 s6 s7 s8 s9 s10 s11 s12 s13 s14 s15 s16 s17 s18 s19 s20 s21 s22 s23 : Int) :
    HiZero (scReduce_limbs shr s0 s1 s2 s3 s4 s5 s6 s7 s8 s9 s10 s11 s12 s13 s14 s15 s16 s17 s18 s19 s20 s21 s22 s23) :=
  ⟨rfl, rfl, rfl, rfl, rfl, rfl, rfl, rfl, rfl, rfl, rfl, rfl⟩

theorem scReduce_store_eq (shr : Shr) (st : L24) :
    scReduce_store shr st = packLo shr st.s0 st.s1 st.s2 st.s3 st.s4 st.s5 st.s6 st.s7 ++ packHi shr st.s8 st.s9 st.s10 st.s11 := by
  unfold_gen; rfl

/-- from digits, zero high limbs and a top limb below 2^25: the packed bytes spell the value of the limbs -/
theorem packed_value (r : L24) (hd : Digits11 r) (hz : HiZero r) (h11 : 0 ≤ r.s11 ∧ r.s11 < 33554432) :
    (leNat (packLo shrI r.s0 r.s1 r.s2 r.s3 r.s4 r.s5 r.s6 r.s7 ++ packHi shrI r.s8 r.s9 r.s10 r.s11) : Int) = value r := by
  rw [pack_value r hd h11, value_of_hiZero r hz]

end Dos.Ed25519

/-
Byte-level model of the encodings of `group/bn256/point.go` (G1, G2, GT) and of
`kyber/group/mod.Int` (scalars), as the code is AFTER the two repairs of this round
(/repo 2440c3a: `gfP.Unmarshal` overwrites its limbs; 1d47f6b: a coordinate ≥ p is an error;
14330d6: G2 `UnmarshalFrom` reads the tag byte first).
Core Lean only.

API (namespace `Dos.Codec`)
  `Out α = ok v | err e | panic site`      explicit outcome; `panic` where Go would index/slice out of range
  `DecErr = short | malformed | noncanon | size | range | eof | ueof`
  `marshalG1 : G1 → Bytes`   (64 bytes: x‖y big-endian, identity = 64 zero bytes)
  `unmarshalG1 : Bytes → Out G1`
  `marshalG2 : G2 → Bytes`   (identity = [0]; else 0x01‖x.im‖x.re‖y.im‖y.re, 129 bytes)
  `unmarshalG2 : Bytes → Out G2`
  `marshalGT : GT → Bytes`, `unmarshalGT : Bytes → Out GT`   (`GT = List Nat`, 12 coordinates in struct order)
  `marshalScalar : Nat → Out Bytes`, `unmarshalScalar : Bytes → Out Nat`
  `equalG1/G2/GT` (`Equal` = comparison of the encodings)
  `unmarshalFrom size dec stream` = `UnmarshalFrom` on a reader holding `stream`: (bytes consumed, outcome)
  Montgomery level (what the limbs hold): `marshalG1M`, `unmarshalG1M`, … see the end of the file.
-/
import DosModel.Model.Bn256

namespace Dos.Codec
open Dos Dos.Bn256

inductive DecErr where
  | short      -- "not enough data"
  | malformed  -- "malformed point": bad tag, curve equation, subgroup
  | noncanon   -- "coordinate exceeds modulus"
  | size       -- scalar: "wrong size buffer"
  | range      -- scalar: "value out of range"
  | eof        -- UnmarshalFrom: reader empty
  | ueof       -- UnmarshalFrom: reader ended inside the element
  deriving DecidableEq, Repr

inductive Out (α : Type) where
  | ok (v : α)
  | err (e : DecErr)
  | panic (site : String)
  deriving Repr, DecidableEq

def Out.bind : Out α → (α → Out β) → Out β
  | .ok v, f => f v
  | .err e, _ => .err e
  | .panic s, _ => .panic s

instance : Monad Out where
  pure := .ok
  bind := Out.bind

def Out.isPanic : Out α → Bool
  | .panic _ => true
  | _ => false

/-- Go `buf[off:]` -/
def sliceFrom (buf : Bytes) (off : Nat) : Out Bytes :=
  if off ≤ buf.length then .ok (buf.drop off) else .panic "slice bounds out of range"

/-- `gfP.Unmarshal(in)` (repaired: overwrites): reads `in[0..31]` big-endian; indexes past a shorter slice panic -/
def gfpUnmarshal (inp : Bytes) : Out Nat :=
  if 32 ≤ inp.length then .ok (beNat (inp.take 32)) else .panic "index out of range"

/-- `gfP.Marshal` of a decoded coordinate -/
def be32 (n : Nat) : Bytes := natBE 32 n

/-- `n` consecutive reads `c_i.Unmarshal(buf[i*32:])` (G1: two, G2: four after the tag byte, GT: twelve):
read a coordinate, re-slice 32 bytes further (`buf[(i+1)*32:] = buf[i*32:][32:]`) -/
def readCoords : Nat → Bytes → Out (List Nat)
  | 0, _ => .ok []
  | n + 1, buf =>
    match gfpUnmarshal buf with
    | .ok c =>
      match sliceFrom buf 32 with
      | .ok rest =>
        match readCoords n rest with
        | .ok cs => .ok (c :: cs)
        | .err e => .err e
        | .panic s => .panic s
      | .err e => .err e
      | .panic s => .panic s
    | .err e => .err e
    | .panic s => .panic s

/-! ### G1 -/

def marshalG1 : G1 → Bytes
  | .inf => List.replicate 64 0
  | .aff x y => be32 x ++ be32 y

/-- what `UnmarshalBinary` does with the two numbers it read -/
def g1OfCoords (x y : Nat) : Out G1 :=
  if x ≥ p ∨ y ≥ p then .err .noncanon
  else if x = 0 ∧ y = 0 then .ok .inf            -- z := 0; IsOnCurve(infinity) = true
  else if G1.onCurve (.aff x y) then .ok (.aff x y)
  else .err .malformed

def unmarshalG1 (buf : Bytes) : Out G1 :=
  if buf.length < 64 then .err .short
  else
    match readCoords 2 buf with
    | .ok [x, y] => g1OfCoords x y
    | .ok _ => .panic "unreachable"
    | .err e => .err e
    | .panic s => .panic s

/-! ### G2 -/

def marshalG2 : G2 → Bytes
  | .inf => [0]
  | .aff x y => [1] ++ be32 x.im ++ be32 x.re ++ be32 y.im ++ be32 y.re

def g2OfCoords (xi xr yi yr : Nat) : Out G2 :=
  if xi ≥ p ∨ xr ≥ p ∨ yi ≥ p ∨ yr ≥ p then .err .noncanon
  else if xi = 0 ∧ xr = 0 ∧ yi = 0 ∧ yr = 0 then .ok .inf
  else
    let P := G2.aff ⟨xi, xr⟩ ⟨yi, yr⟩
    if !G2.onCurve P then .err .malformed          -- curve equation
    else if !G2.inSubgroup P then .err .malformed  -- `cneg.Mul(c, Order)`, `cneg.z.IsZero()`
    else .ok P

def unmarshalG2 (buf : Bytes) : Out G2 :=
  if buf.head? = some 0 then .ok .inf
  else if buf.length > 0 ∧ buf.head? ≠ some 1 then .err .malformed
  else if buf.length < 129 then .err .short
  else
    match sliceFrom buf 1 with
    | .ok body =>
      match readCoords 4 body with
      | .ok [xi, xr, yi, yr] => g2OfCoords xi xr yi yr
      | .ok _ => .panic "unreachable"
      | .err e => .err e
      | .panic s => .panic s
    | .err e => .err e
    | .panic s => .panic s

/-! ### GT: twelve coordinates, no membership test -/

abbrev GT := List Nat

def marshalGT (g : GT) : Bytes := (g.map be32).flatten

def unmarshalGT (buf : Bytes) : Out GT :=
  if buf.length < 384 then .err .short
  else
    match readCoords 12 buf with
    | .ok cs => if cs.any (fun c => c ≥ p) then .err .noncanon else .ok cs
    | .err e => .err e
    | .panic s => .panic s

/-! ### scalars (`mod.Int` with modulus `Order`, big-endian) -/

/-- `MarshalBinary`: `V.Bytes()` left-padded to 32; a value needing more than 32 bytes makes the
`copy(nb[offset:], b)` slice expression panic (never for a reduced scalar) -/
def marshalScalar (s : Nat) : Out Bytes :=
  if s < 2 ^ 256 then .ok (natBE 32 s) else .panic "slice bounds out of range"

def unmarshalScalar (buf : Bytes) : Out Nat :=
  if buf.length ≠ 32 then .err .size
  else if beNat buf ≥ r then .err .range
  else .ok (beNat buf)

/-! ### `Equal`: point.go compares the two encodings (`subtle.ConstantTimeCompare`) -/
def equalG1 (P Q : G1) : Bool := marshalG1 P == marshalG1 Q
def equalG2 (P Q : G2) : Bool := marshalG2 P == marshalG2 Q
def equalGT (P Q : GT) : Bool := marshalGT P == marshalGT Q

/-! ### stream API: `UnmarshalFrom(r)` = `io.ReadFull(r, make([]byte, size))` then `UnmarshalBinary` -/

def unmarshalFrom (size : Nat) (dec : Bytes → Out α) (stream : Bytes) : Nat × Out α :=
  if stream.length < size then
    (stream.length, .err (if stream.length = 0 then .eof else .ueof))
  else (size, dec (stream.take size))

/-- `pointG2.UnmarshalFrom` (repaired, /repo 14330d6): tag byte first; the identity is one byte -/
def unmarshalFromG2 (stream : Bytes) : Nat × Out G2 :=
  match stream with
  | [] => (0, .err .eof)
  | t :: rest =>
    if t = 0 then (1, unmarshalG2 [t])
    else if rest.length < 128 then (1 + rest.length, .err .ueof)
    else (129, unmarshalG2 (t :: rest.take 128))

/-! ### the receiver.  `p.UnmarshalBinary(buf)` / `p.UnmarshalFrom(r)` are methods of a point object that
already holds some state (fresh, `Null()`, `Base()`, a `Mul` result, the result of an earlier successful or
failed decode).  After the repairs the code never reads that state: every coordinate, `z` and `t` are
overwritten on every path.  The model says so by ignoring the receiver argument; the correspondence cases
`seq`/`into` make it a check of the code. -/

def unmarshalG1Into (_recv : G1) (buf : Bytes) : Out G1 := unmarshalG1 buf
def unmarshalG2Into (_recv : G2) (buf : Bytes) : Out G2 := unmarshalG2 buf
def unmarshalGTInto (_recv : GT) (buf : Bytes) : Out GT := unmarshalGT buf

/-- the receiver after a call: the decoded element, or (after an error) some unspecified state `junk` -/
def recvAfter (junk : α) : Out α → α
  | .ok v => v
  | _ => junk

/-- a sequence of decodes through ONE receiver (`junk i` = whatever a failed decode leaves behind) -/
def decodeSeq (dec : α → Bytes → Out α) (junk : Nat → α) : α → List Bytes → List (Out α)
  | _, [] => []
  | recv, b :: bs =>
    let o := dec recv b
    o :: decodeSeq dec junk (recvAfter (junk bs.length) o) bs

/-! ### Montgomery level: what the limbs of a decoded point hold, and what `MarshalBinary` emits.
A limb quadruple is a number `< 2^256`.  `MarshalBinary` writes `montDecode` of each limb
quadruple; `UnmarshalBinary` stores `montEncode` of each coordinate read. -/

/-- the 32 bytes `MarshalBinary` writes for one stored coordinate `a` (any limb values) -/
def emitCoord (a : Nat) : Bytes := be32 (montDecode a)

/-- G1 in Montgomery form: `none` = infinity (z = 0) -/
def marshalG1M : Option (Nat × Nat) → Bytes
  | none => List.replicate 64 0
  | some (xm, ym) => emitCoord xm ++ emitCoord ym

/-- G2 in Montgomery form: (x.im, x.re, y.im, y.re) -/
def marshalG2M : Option (Nat × Nat × Nat × Nat) → Bytes
  | none => [0]
  | some (a, b, c, d) => [1] ++ emitCoord a ++ emitCoord b ++ emitCoord c ++ emitCoord d

/-- what `UnmarshalBinary` stores for a coordinate it read -/
def storeCoord (x : Nat) : Nat := montEncode x

/-- Go `b[lo:hi]` -/
def sliceRange (b : Bytes) (lo hi : Nat) : Out Bytes :=
  if lo ≤ hi ∧ hi ≤ b.length then .ok ((b.drop lo).take (hi - lo))
  else .panic "slice bounds out of range"

/-- `pdkg.go decodePubKey`: `MarshalBinary` then bytes `32i+1 .. 32i+33` (i = 0..3) as big-endian
numbers; slicing a 1-byte identity encoding panics (F12) -/
def decodePubKey (enc : Bytes) : Out (List Nat) :=
  match sliceRange enc 1 33, sliceRange enc 33 65, sliceRange enc 65 97, sliceRange enc 97 129 with
  | .ok a, .ok b, .ok c, .ok d => .ok [beNat a, beNat b, beNat c, beNat d]
  | _, _, _, _ => .panic "slice bounds out of range"

/-- `vss.go Signature.ToBigInt`: `Signature[0:32]`, `Signature[32:]` -/
def sigToBigInt (sig : Bytes) : Out (Nat × Nat) :=
  if 32 ≤ sig.length then .ok (beNat (sig.take 32), beNat (sig.drop 32))
  else .panic "slice bounds out of range"

/-! ### helpers for the drivers -/

def errName : DecErr → String
  | .short => "short" | .malformed => "malformed" | .noncanon => "noncanon"
  | .size => "size" | .range => "range" | .eof => "eof" | .ueof => "ueof"

def showOut (f : α → String) : Out α → String
  | .ok v => "ok " ++ f v
  | .err e => "err " ++ errName e
  | .panic s => "panic " ++ s

end Dos.Codec

/-
C10 / E2 — the environment in which the interpreted gfp.s runs: the package variables
`p2`, `np` (regenerated from constants.go) and the `hasBMI2` switch; plus the runner the
driver uses to execute one of the four functions on 256-bit operands under a pointer
aliasing pattern.
-/
import DosModel.Model.AsmInterp
import DosModel.Model.Mont
import DosModel.Gen.Bn256Consts
import DosModel.Gen.Bn256Asm

namespace Dos.Asm
open Dos.Mont

/-- package variables as the assembly sees them -/
def codeEnv (bmi2 : Bool) : Env :=
  { p2 := fun i => Gen.Bn256.p2.getD i 0, np := fun i => Gen.Bn256.np.getD i 0, hasBMI2 := bmi2 }

def junkW : Nat := 0xDEADBEEFCAFEF00D

/-- initial machine state: junk in every register and flag; block `alias .a` holds `a`,
block `alias .b` holds `b` (if b is aliased to a the callee sees `a` in both), any other block junk -/
def initState (al : Blk → Blk) (a b : L4) : State :=
  let w := Val.word junkW
  { regs := ⟨w, w, w, w, w, w, w, w, w, w, w, w, w⟩, cf := 1, zf := none, frame := [],
    alias := al,
    mem := fun k i =>
      if k = al .a then (match i with | 0 => a.l0 | 1 => a.l1 | 2 => a.l2 | _ => a.l3)
      else if k = al .b then (match i with | 0 => b.l0 | 1 => b.l1 | 2 => b.l2 | _ => b.l3)
      else 0x5555555555555555 }

/-- run `f` and read the result block -/
def runFn (f : Func) (bmi2 : Bool) (al : Blk → Blk) (a b : Nat) : Except String Nat :=
  match call (codeEnv bmi2) f (initState al (L4.ofNat a) (L4.ofNat b)) junkW with
  | .ok s =>
      let k := al .c
      .ok (L4.mk (s.mem k 0) (s.mem k 1) (s.mem k 2) (s.mem k 3)).val
  | .err m => .error m

end Dos.Asm

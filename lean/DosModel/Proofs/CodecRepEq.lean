/-
Representation-level marshal = the affine marshal of the denoted element (`Model/CodecRepEq.lean`).
-/
import DosModel.Model.CodecRepEq
import DosModel.Proofs.CodecChar
import DosModel.Proofs.Bn256ConcMont
import DosModel.Proofs.Bn256ConcRedc

namespace Dos.Codec
open Dos Dos.Bn256

theorem finv_one : finv 1 = 1 := by decide +kernel
theorem montDecode_one : montDecode (montEncode 1) = 1 := by decide +kernel
theorem montEncode_one_ne : (montEncode 1 == 0) = false := by decide +kernel
theorem p_pos' : 0 < p := by decide
theorem fmul_one_one : fmul 1 1 = 1 := by decide +kernel

theorem fmul_lt (a b : Nat) : fmul a b < p := Nat.mod_lt _ p_pos'
theorem fmul_one_right (a : Nat) (h : a < p) : fmul a 1 = a := by
  simp [fmul, Nat.mod_eq_of_lt h]

theorem dec_enc_of_lt (x : Nat) (h : x < p) : montDecode (montEncode x) = x := by
  rw [montDecode_montEncode x (Nat.lt_trans h p_lt_R), Nat.mod_eq_of_lt h]

/-- **the encoding of a representation is the encoding of the element it denotes**, whatever Jacobian
representative (any z), for all limb values -/
theorem marshalRep1_eq (g : Rep1) (hx : g.x < R) (hy : g.y < R) :
    marshalRep1 g = marshalG1 g.toG1 := by
  have hd := montDecode_one
  have hn := montEncode_one_ne
  have e1 := fmul_one_one
  have ex := fmul_one_right _ (montDecode_lt _ hx)
  have ey := fmul_one_right _ (montDecode_lt _ hy)
  have dx := dec_enc_of_lt _ (fmul_lt (montDecode g.x) (fmul (finv (montDecode g.z)) (finv (montDecode g.z))))
  have dy := dec_enc_of_lt _ (fmul_lt (montDecode g.y)
    (fmul (finv (montDecode g.z)) (fmul (finv (montDecode g.z)) (finv (montDecode g.z)))))
  unfold marshalRep1 CodecRep.marshalG1 makeAffine1 Rep1.toG1
  simp only [natFld, id]
  generalize montEncode 1 = one at hd hn ⊢
  by_cases h1 : (g.z == one) = true
  · have hz : g.z = one := by simpa using h1
    subst hz
    simp only [h1, if_true, hn, hd, finv_one, e1, ex, ey, marshalG1, Bool.false_eq_true, if_false, -List.reduceReplicate]
  · have h1' : (g.z == one) = false := by simpa using h1
    by_cases h0 : (g.z == 0) = true
    · simp only [h1', h0, if_true, Bool.false_eq_true, if_false, marshalG1, -List.reduceReplicate]
    · have h0' : (g.z == 0) = false := by simpa using h0
      simp only [h1', h0', Bool.false_eq_true, if_false, marshalG1, hn, dx, dy, -List.reduceReplicate]

end Dos.Codec

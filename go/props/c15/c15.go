// Package c15: length-prefixed framing (p2p/client.go readFrom / writeTo)
// driven through a scripted net.Conn that controls every chunk boundary.
package c15

import (
	"bytes"
	"encoding/binary"
	"fmt"
	"hash/adler32"
	"io"
	"net"
	"runtime"
	"strconv"
	"strings"
	"sync"
	"time"

	"github.com/DOSNetwork/core/p2p"

	"verifharness/internal/h"
)

const limit = 1 << 20 // what the PROPERTY says (1 MiB), not what the code says

func init() {
	h.Register(&h.Prop{
		ID:     "C15",
		Rule:   "cases: wrx (every Write scripted: short writes with a nil error, Writes returning (0, nil), a failing Write at every position), pipe (the real sendPipe on a scripted connection, its wire re-chunked and read by the real readPipe; transport failures final or transient), wr2 (two goroutines call writeTo on one connection under a scripted order of their Writes), rpipe (the real readPipe on streams with a bad header in the middle), rdzm (rdz against the model's step machine), rdz (Reads returning 0 bytes and no error in between), rde (the rd cases over a transport whose last Read returns bytes together with io.EOF), inter (two connections read concurrently under a scripted interleaving of their Read calls), rd (explicit short stream × every 2-split / 1-byte / random chunking, EOF at every offset), rdseq (≤50 frames), syn (lengths 1..5, 2^k-1,2^k,2^k+1 ≤ 2^20+1, headers 0 and > limit), wr; non-trivial = stream is delivered in ≥2 chunks or is malformed (truncated / zero / oversize header); distinct = distinct case line",
		Gen:    gen,
		Exec:   exec,
		Shrink: shrinkLine,
	})
}

// scripted connection
type sconn struct {
	chunks  [][]byte
	maxReq  int
	written []byte
	wsizes  []int
	wi      int
	wcalls  int
	zeroOK  bool // an empty chunk of the script is a Read that returns (0, nil) instead of being skipped
	eofData bool // the Read that empties the transport returns its bytes TOGETHER with io.EOF (io.Reader allows it)
}

func (c *sconn) Read(b []byte) (int, error) {
	if len(b) > c.maxReq {
		c.maxReq = len(b)
	}
	if c.zeroOK && len(c.chunks) > 0 && len(c.chunks[0]) == 0 {
		c.chunks = c.chunks[1:]
		return 0, nil
	}
	for len(c.chunks) > 0 && len(c.chunks[0]) == 0 {
		c.chunks = c.chunks[1:]
	}
	if len(c.chunks) == 0 {
		return 0, io.EOF
	}
	n := copy(b, c.chunks[0])
	c.chunks[0] = c.chunks[0][n:]
	if c.eofData {
		left := 0
		for _, ch := range c.chunks {
			left += len(ch)
		}
		if left == 0 {
			return n, io.EOF
		}
	}
	return n, nil
}
func (c *sconn) Write(b []byte) (int, error) {
	n := len(b)
	c.wcalls++
	if len(c.wsizes) > 0 {
		k := c.wsizes[c.wi%len(c.wsizes)]
		c.wi++
		if k < 1 {
			k = 1
		}
		if k < n {
			n = k
		}
	}
	c.written = append(c.written, b[:n]...)
	return n, nil
}
func (c *sconn) Close() error                       { return nil }
func (c *sconn) LocalAddr() net.Addr                { return &net.TCPAddr{} }
func (c *sconn) RemoteAddr() net.Addr               { return &net.TCPAddr{} }
func (c *sconn) SetDeadline(t time.Time) error      { return nil }
func (c *sconn) SetReadDeadline(t time.Time) error  { return nil }
func (c *sconn) SetWriteDeadline(t time.Time) error { return nil }
func (c *sconn) rest() []byte {
	var r []byte
	for _, ch := range c.chunks {
		r = append(r, ch...)
	}
	return r
}

func chunk(bs []byte, sizes []int) [][]byte {
	var out [][]byte
	i := 0
	for len(bs) > 0 {
		if len(sizes) == 0 {
			out = append(out, bs)
			break
		}
		k := sizes[i%len(sizes)]
		i++
		if k == 0 {
			k = 1
		}
		if k > len(bs) {
			k = len(bs)
		}
		out = append(out, bs[:k])
		bs = bs[k:]
	}
	return out
}

// chunkZ is chunk with size 0 meaning "a Read that returns no bytes and no error" (an empty chunk)
func chunkZ(bs []byte, sizes []int) [][]byte {
	pos := false
	for _, k := range sizes {
		pos = pos || k > 0
	}
	if !pos {
		return chunk(bs, nil)
	}
	var out [][]byte
	i := 0
	for len(bs) > 0 {
		k := sizes[i%len(sizes)]
		i++
		if k > len(bs) {
			k = len(bs)
		}
		out = append(out, bs[:k])
		bs = bs[k:]
	}
	return out
}

func csv(s string) []int {
	if s == "-" {
		return nil
	}
	var r []int
	for _, w := range strings.Split(s, ",") {
		r = append(r, h.Atoi(w))
	}
	return r
}
func csvOf(v []int) string {
	if len(v) == 0 {
		return "-"
	}
	var s []string
	for _, x := range v {
		s = append(s, strconv.Itoa(x))
	}
	return strings.Join(s, ",")
}

func syn(n, a, b int) []byte {
	p := make([]byte, n)
	for i := range p {
		p[i] = byte((a*i + b) % 256)
	}
	return p
}

func errKind(err error) string {
	s := err.Error()
	switch {
	case strings.Contains(s, "conn read header"):
		return "header"
	case strings.Contains(s, "conn read content"):
		return "body"
	case strings.Contains(s, "SizeLimit"):
		return "size"
	}
	return "other:" + h.OneLine(s)
}

// readMeasured runs the real readFrom and reports how many bytes the process allocated meanwhile
// (cases run one at a time; the scripted connection allocates nothing in Read).
func readMeasured(c net.Conn) (got []byte, err error, alloc uint64) {
	var m0, m1 runtime.MemStats
	runtime.ReadMemStats(&m0)
	got, err = p2p.VerifReadFrom(c)
	runtime.ReadMemStats(&m1)
	return got, err, m1.TotalAlloc - m0.TotalAlloc
}

// oracleAlloc: "a header announcing zero or more than 1 MiB is rejected before any payload-sized allocation"
func oracleAlloc(stream []byte, alloc uint64) string {
	if len(stream) < 4 {
		return ""
	}
	size := uint64(binary.BigEndian.Uint32(stream[:4]))
	if size > limit && alloc >= size/2 {
		return fmt.Sprintf("badsize-allocated: header %d rejected, but %d bytes were allocated on the way", size, alloc)
	}
	return ""
}

// oracleRead evaluates the property itself on one read of `stream` (independent of the model).
func oracleRead(stream []byte, got []byte, err error, rest []byte, maxReq int) string {
	if len(stream) < 4 {
		if err == nil {
			return "truncated-accepted: stream shorter than a header returned a payload"
		}
		return ""
	}
	size := int(binary.BigEndian.Uint32(stream[:4]))
	if size == 0 || size > limit {
		if err == nil {
			return fmt.Sprintf("badsize-accepted: header %d accepted", size)
		}
		if maxReq > 4 {
			return fmt.Sprintf("badsize-late: header %d rejected only after a %d-byte read was requested", size, maxReq)
		}
		return ""
	}
	if len(stream) < 4+size {
		if err == nil {
			return fmt.Sprintf("truncated-accepted: %d of %d payload bytes present, got payload of %d", len(stream)-4, size, len(got))
		}
		return ""
	}
	if err != nil {
		return "valid-rejected: " + h.OneLine(err.Error())
	}
	if !bytes.Equal(got, stream[4:4+size]) {
		return "payload-differs"
	}
	if !bytes.Equal(rest, stream[4+size:]) {
		return fmt.Sprintf("bleed: %d bytes left on the connection, expected %d", len(rest), len(stream)-4-size)
	}
	return ""
}

// gate serialises the Read calls of several connections in a scripted order: a Read of connection
// `id` proceeds only when the next token of `order` is `id` (tokens of finished readers are skipped;
// once the script is exhausted everybody runs freely).
type gate struct {
	mu    sync.Mutex
	cond  *sync.Cond
	order string
	pos   int
	done  map[byte]bool
}

func (g *gate) enter(id byte) {
	g.mu.Lock()
	defer g.mu.Unlock()
	for {
		for g.pos < len(g.order) && g.done[g.order[g.pos]] {
			g.pos++
		}
		if g.pos >= len(g.order) {
			return
		}
		if g.order[g.pos] == id {
			return
		}
		g.cond.Wait()
	}
}
func (g *gate) leave(id byte) { // the Read of `id` has returned
	g.mu.Lock()
	if g.pos < len(g.order) && g.order[g.pos] == id {
		g.pos++
	}
	g.cond.Broadcast()
	g.mu.Unlock()
}
func (g *gate) finish(id byte) {
	g.mu.Lock()
	g.done[id] = true
	g.cond.Broadcast()
	g.mu.Unlock()
}

type gconn struct {
	sconn
	g  *gate
	id byte
}

func (c *gconn) Read(b []byte) (int, error) {
	c.g.enter(c.id)
	n, err := c.sconn.Read(b)
	c.g.leave(c.id)
	return n, err
}

func showRd(got []byte, err error, c *sconn) string {
	if err != nil {
		return fmt.Sprintf("err %s req=%d", errKind(err), c.maxReq)
	}
	return fmt.Sprintf("ok %s rest=%s req=%d", h.Hex(got), h.Hex(c.rest()), c.maxReq)
}

func exec(line string) (res h.Result) {
	w := strings.Fields(line)
	switch w[0] {
	case "inter":
		sa, sb := h.UnHex(w[1]), h.UnHex(w[3])
		g := &gate{order: w[5], done: map[byte]bool{}}
		g.cond = sync.NewCond(&g.mu)
		ca := &gconn{sconn: sconn{chunks: chunk(sa, csv(w[2]))}, g: g, id: 'a'}
		cb := &gconn{sconn: sconn{chunks: chunk(sb, csv(w[4]))}, g: g, id: 'b'}
		var ga, gb []byte
		var ea, eb error
		var wg sync.WaitGroup
		wg.Add(2)
		go func() { defer wg.Done(); ga, ea = p2p.VerifReadFrom(ca); g.finish('a') }()
		go func() { defer wg.Done(); gb, eb = p2p.VerifReadFrom(cb); g.finish('b') }()
		wg.Wait()
		res.Impl = "A:" + showRd(ga, ea, &ca.sconn) + " B:" + showRd(gb, eb, &cb.sconn)
		if o := oracleRead(sa, ga, ea, ca.rest(), ca.maxReq); o != "" {
			res.Oracle = "interleaved-" + o
		} else if o := oracleRead(sb, gb, eb, cb.rest(), cb.maxReq); o != "" {
			res.Oracle = "interleaved-" + o
		}
		res.Class = "inter"
		res.Nontrivial = strings.Contains(w[5], "ab") || strings.Contains(w[5], "ba")
	case "rd":
		stream, sizes := h.UnHex(w[1]), csv(w[2])
		c := &sconn{chunks: chunk(stream, sizes)}
		nch := len(c.chunks)
		got, err, alloc := readMeasured(c)
		res.Oracle = oracleRead(stream, got, err, c.rest(), c.maxReq)
		if res.Oracle == "" {
			res.Oracle = oracleAlloc(stream, alloc)
		}
		if err != nil {
			res.Impl = fmt.Sprintf("err %s req=%d", errKind(err), c.maxReq)
			res.Class = "rd-err-" + errKind(err)
			res.Nontrivial = true
		} else {
			res.Impl = fmt.Sprintf("ok %s rest=%s req=%d", h.Hex(got), h.Hex(c.rest()), c.maxReq)
			res.Class = "rd-ok"
			res.Nontrivial = nch >= 2
		}
	case "rdz", "rdzm":
		// (rdzm: the same run; the model side goes through its step machine, one conn.Read per step)
		// size 0 in the script = a Read that returns (0, nil): the loops just call Read again
		stream, sizes := h.UnHex(w[1]), csv(w[2])
		c := &sconn{chunks: chunkZ(stream, sizes), zeroOK: true}
		got, err := p2p.VerifReadFrom(c)
		if o := oracleRead(stream, got, err, c.rest(), c.maxReq); o != "" {
			res.Oracle = "zeroread-" + o
		}
		if err != nil {
			res.Impl = fmt.Sprintf("err %s req=%d", errKind(err), c.maxReq)
			res.Class = w[0] + "-err-" + errKind(err)
		} else {
			res.Impl = fmt.Sprintf("ok %s rest=%s req=%d", h.Hex(got), h.Hex(c.rest()), c.maxReq)
			res.Class = w[0] + "-ok"
		}
		res.Nontrivial = true
	case "rde":
		// the transport hands out its last bytes together with io.EOF (n > 0, err != nil in one Read)
		stream, sizes := h.UnHex(w[1]), csv(w[2])
		c := &sconn{chunks: chunk(stream, sizes), eofData: true}
		lastStart := 0 // offset at which the transport's last Read-able chunk starts
		for i, ch := range c.chunks {
			if i < len(c.chunks)-1 {
				lastStart += len(ch)
			}
		}
		got, err := p2p.VerifReadFrom(c)
		o := oracleRead(stream, got, err, c.rest(), c.maxReq)
		if strings.HasPrefix(o, "valid-rejected") {
			// the code drops the bytes of a failing Read: a complete frame whose last byte arrives in the
			// transport's last Read is rejected (model: readFrameE; Props.C15.eofdata_last_frame_rejected).
			// Only a frame that ends before that last chunk begins must be accepted.
			size := int(binary.BigEndian.Uint32(stream[:4]))
			if lastStart < 4+size {
				o = ""
			}
		}
		if o != "" {
			res.Oracle = "eofdata-" + o
		}
		if err != nil {
			res.Impl = fmt.Sprintf("err %s req=%d", errKind(err), c.maxReq)
			res.Class = "rde-err-" + errKind(err)
		} else {
			res.Impl = fmt.Sprintf("ok %s rest=%s req=%d", h.Hex(got), h.Hex(c.rest()), c.maxReq)
			res.Class = "rde-ok"
		}
		res.Nontrivial = true
	case "rdseq":
		k, stream, sizes := h.Atoi(w[1]), h.UnHex(w[2]), csv(w[3])
		c := &sconn{chunks: chunk(stream, sizes)}
		var shown []string
		pos := 0
		for i := 0; i < k; i++ {
			before := c.rest()
			got, err := p2p.VerifReadFrom(c)
			if o := oracleRead(before, got, err, c.rest(), 0); o != "" && res.Oracle == "" && !strings.HasPrefix(o, "badsize-late") {
				res.Oracle = fmt.Sprintf("%s (frame %d)", o, i)
			}
			if err != nil {
				shown = append(shown, "err:"+errKind(err))
				if errKind(err) != "size" {
					c.chunks = nil
				}
				break
			}
			shown = append(shown, "ok:"+h.Hex(got))
			pos += 4 + len(got)
		}
		res.Impl = fmt.Sprintf("%s rest=%s", strings.Join(shown, ";"), h.Hex(c.rest()))
		res.Class = fmt.Sprintf("rdseq-%dframes", len(shown)/10*10)
		res.Nontrivial = true
	case "syn":
		hdr, n, a, b, extra, sizes := h.Atoi(w[1]), h.Atoi(w[2]), h.Atoi(w[3]), h.Atoi(w[4]), h.UnHex(w[5]), csv(w[6])
		var pre [4]byte
		binary.BigEndian.PutUint32(pre[:], uint32(hdr))
		stream := append(append(pre[:], syn(n, a, b)...), extra...)
		c := &sconn{chunks: chunk(stream, sizes)}
		nch := len(c.chunks)
		got, err, alloc := readMeasured(c)
		res.Oracle = oracleRead(stream, got, err, c.rest(), c.maxReq)
		if res.Oracle == "" {
			res.Oracle = oracleAlloc(stream, alloc)
		}
		if err != nil {
			res.Impl = fmt.Sprintf("err %s req=%d", errKind(err), c.maxReq)
			res.Class = "syn-err-" + errKind(err)
			res.Nontrivial = true
		} else {
			res.Impl = fmt.Sprintf("ok len=%d adler=%d rest=%s req=%d", len(got), adler32.Checksum(got), h.Hex(c.rest()), c.maxReq)
			res.Class = "syn-ok"
			res.Nontrivial = nch >= 2
		}
	case "wr":
		n, a, b := h.Atoi(w[1]), h.Atoi(w[2]), h.Atoi(w[3])
		var ws []int
		if len(w) > 4 {
			ws = csv(w[4])
		}
		payload := syn(n, a, b)
		c := &sconn{wsizes: ws}
		err := p2p.VerifWriteTo(payload, c)
		if err != nil {
			res.Impl = "err oversize"
			res.Class = "wr-err"
			if n <= limit {
				res.Oracle = "write-valid-rejected: " + h.OneLine(err.Error())
			}
			if len(c.written) != 0 {
				res.Oracle = "write-partial-on-error"
			}
		} else {
			res.Class = "wr-ok"
			var pre [4]byte
			binary.BigEndian.PutUint32(pre[:], uint32(n))
			want := append(pre[:], payload...)
			if n > limit {
				res.Oracle = fmt.Sprintf("write-oversize-accepted: %d bytes", n)
			} else if !bytes.Equal(c.written, want) {
				res.Oracle = "write-stream-differs"
			} else {
				// end to end: what was written reads back under a hostile chunking
				r := &sconn{chunks: chunk(c.written, []int{1, 3, 1000, 7})}
				got, rerr := p2p.VerifReadFrom(r)
				if n == 0 {
					if rerr == nil {
						res.Oracle = "empty-frame-read-back"
					}
				} else if rerr != nil || !bytes.Equal(got, payload) {
					res.Oracle = "write-read-roundtrip-differs"
				}
			}
			hd := c.written
			if len(hd) > 4 {
				hd = hd[:4]
			}
			res.Impl = fmt.Sprintf("ok len=%d adler=%d hdr=%s calls=%d", len(c.written), adler32.Checksum(c.written), h.Hex(hd), c.wcalls)
		}
		res.Nontrivial = len(ws) > 0 || n > limit
	default:
		if r, ok := execX(line); ok {
			return r
		}
		panic("bad case line")
	}
	return
}

func frame(p []byte) []byte {
	var pre [4]byte
	binary.BigEndian.PutUint32(pre[:], uint32(len(p)))
	return append(pre[:], p...)
}

func gen(tier string, rng *h.Rng, emit func(string)) {
	thorough := tier == "thorough"
	// 1. short streams: every 2-split point, 1-byte reads, EOF at every offset
	maxShort := 24
	if thorough {
		maxShort = 64
	}
	for n := 1; n <= maxShort; n++ {
		if !thorough && n > 8 && n%5 != 0 {
			continue
		}
		p := rng.Bytes(n)
		extra := rng.Bytes(rng.Intn(6))
		s := append(frame(p), extra...)
		// every line also as `rde`: same stream and chunking over a transport that returns its last
		// bytes together with io.EOF
		both := func(args string) { emit("rd " + args); emit("rde " + args) }
		both(fmt.Sprintf("%s -", h.Hex(s)))
		both(fmt.Sprintf("%s 1", h.Hex(s)))
		for k := 1; k < len(s); k++ {
			both(fmt.Sprintf("%s %d,%d", h.Hex(s), k, len(s)))
		}
		for cut := 0; cut < 4+n; cut++ { // truncated
			both(fmt.Sprintf("%s %d", h.Hex(s[:cut]), 1+rng.Intn(5)))
			if cut > 4 {
				emit(fmt.Sprintf("rde %s %d,%d", h.Hex(s[:cut]), 4, len(s))) // header, then the short tail WITH the EOF
				emit(fmt.Sprintf("rde %s -", h.Hex(s[:cut])))                // everything in one Read with the EOF
			}
		}
		for j := 0; j < 4; j++ {
			sz := []int{1 + rng.Intn(4), 1 + rng.Intn(9), 1 + rng.Intn(3)}
			both(fmt.Sprintf("%s %s", h.Hex(s), csvOf(sz)))
		}
		// Reads that return (0, nil) in between (before the header, inside it, between header and body, inside the body)
		emit(fmt.Sprintf("rdz %s 0,1", h.Hex(s)))
		emit(fmt.Sprintf("rdz %s 0,0,3,0", h.Hex(s)))
		emit(fmt.Sprintf("rdz %s 4,0,%d,0", h.Hex(s), n))
		emit(fmt.Sprintf("rdz %s 0,2,0,2,0,1", h.Hex(s[:len(s)/2])))
	}
	// 2. zero / oversize / boundary headers
	for _, hdr := range []uint32{0, limit + 1, limit + 2, 1 << 21, 1 << 24, 1 << 31, 0xFFFFFFFF, 0x80000000, 0xFFFFFFFE} {
		var pre [4]byte
		binary.BigEndian.PutUint32(pre[:], hdr)
		s := append(pre[:], rng.Bytes(12)...)
		emit(fmt.Sprintf("rd %s -", h.Hex(s)))
		emit(fmt.Sprintf("rd %s 1", h.Hex(s)))
		emit(fmt.Sprintf("rd %s 2,3", h.Hex(s)))
	}
	// 2b. headers that are small numbers once a high bit is masked off (a reader that masks the decoded size
	// would accept them), followed by a payload of that small length
	for _, k := range []uint32{1, 2, 5} {
		for _, bit := range []uint32{1 << 31, 1 << 30, 1 << 24, 1 << 21} {
			var pre [4]byte
			binary.BigEndian.PutUint32(pre[:], bit|k)
			s := append(pre[:], rng.Bytes(int(k))...)
			emit(fmt.Sprintf("rd %s -", h.Hex(s)))
			emit(fmt.Sprintf("rd %s 4,1", h.Hex(s)))
		}
	}
	// 2c. writes far over the limit whose length is small once high bits are masked off
	for _, n := range []int{1<<21 + 5, 1<<21 + 1<<20 + 1, 1 << 22} {
		emit(fmt.Sprintf("wr %d 3 1", n))
	}
	// 3. the length catalogue of the property
	lens := []int{1, 2, 3, 4, 5}
	for k := 1; k <= 20; k++ {
		lens = append(lens, 1<<uint(k)-1, 1<<uint(k), 1<<uint(k)+1)
	}
	for _, n := range lens {
		a, b := 1+rng.Intn(250), rng.Intn(256)
		extra := h.Hex(rng.Bytes(rng.Intn(5)))
		hdr := n
		chunkings := [][]int{nil, {4, 1 << 30}, {1 + rng.Intn(7), 1 + rng.Intn(1500), 1 + rng.Intn(70000)}, {5, 1460}}
		if n <= 1<<14 {
			chunkings = append(chunkings, []int{1})
		}
		if thorough {
			chunkings = append(chunkings, []int{3, 1}, []int{1 + rng.Intn(64)}, []int{1024}, []int{1 + rng.Intn(4096), 1 + rng.Intn(9)})
		}
		for _, cz := range chunkings {
			emit(fmt.Sprintf("syn %d %d %d %d %s %s", hdr, n, a, b, extra, csvOf(cz)))
		}
		// header says n but the stream stops early (truncated inside the payload)
		if n > 1 {
			emit(fmt.Sprintf("syn %d %d %d %d - %s", n, n-1, a, b, csvOf([]int{1 + rng.Intn(2000)})))
			emit(fmt.Sprintf("syn %d %d %d %d - -", n, rng.Intn(n), a, b))
		}
		emit(fmt.Sprintf("wr %d %d %d", n, a, b))
		emit(fmt.Sprintf("wr %d %d %d %s", n, a, b, csvOf([]int{1 + rng.Intn(3), 1 + rng.Intn(5000)})))
	}
	emit("wr 0 1 1")
	emit(fmt.Sprintf("wr %d 3 1", limit+2))
	// 4. sequences of up to 50 frames under random chunkings
	nseq := 40
	if thorough {
		nseq = 400
	}
	for i := 0; i < nseq; i++ {
		k := 1 + rng.Intn(50)
		var s []byte
		for j := 0; j < k; j++ {
			s = append(s, frame(rng.Bytes(1+rng.Intn(12)))...)
		}
		mode := rng.Intn(5)
		want := k
		switch mode {
		case 0: // stream ends inside the last frame
			s = s[:len(s)-1-rng.Intn(3)]
		case 1: // a zero header in the middle
			s = append(s, 0, 0, 0, 0, 1, 2, 3)
			want = k + 1
		case 2: // read one more frame than present
			want = k + 1
		}
		sz := []int{1 + rng.Intn(5), 1 + rng.Intn(40), 1 + rng.Intn(3)}
		if rng.Intn(4) == 0 {
			sz = []int{1}
		}
		emit(fmt.Sprintf("rdseq %d %s %s", want, h.Hex(s), csvOf(sz)))
	}
	// 6. two connections read concurrently, every interleaving of their first reads scripted:
	// each must behave as if alone (no state shared between connections)
	ni := 60
	if thorough {
		ni = 1500
	}
	for i := 0; i < ni; i++ {
		pa, pb := rng.Bytes(1+rng.Intn(300)), rng.Bytes(1+rng.Intn(9))
		big := rng.Intn(3) == 0
		if big {
			pa = rng.Bytes(65536 + rng.Intn(1000)) // header bytes 00 01 0x xx: mixing headers changes the size a lot
		}
		sa, sb := append(frame(pa), rng.Bytes(rng.Intn(3))...), append(frame(pb), rng.Bytes(rng.Intn(3))...)
		za := [][]int{{2, 2, 1 << 20}, {1, 1, 2, 1 << 20}, {3, 1, 1 << 20}, {1}, {1 + rng.Intn(3)}}[rng.Intn(5)]
		if big { // only the header is fragmented: the model's step machine is quadratic in the number of chunks
			za = [][]int{{2, 2, 1 << 20}, {1, 1, 2, 1 << 20}, {3, 1, 1 << 20}, {1, 2, 1, 1 << 20}}[rng.Intn(4)]
		}
		zb := [][]int{{4, 1 << 20}, {1}, {2, 2, 1 << 20}, {1 + rng.Intn(4)}}[rng.Intn(4)]
		var order []byte
		for j, k := 0, 2+rng.Intn(10); j < k; j++ {
			order = append(order, "ab"[rng.Intn(2)])
		}
		if i < 16 { // directed: A reads part of its header, B reads a whole header, A continues
			order = []byte([]string{"aba", "abba", "aabaa", "abab", "baab", "ababab", "aabbaabb", "abbbbba"}[i%8])
		}
		emit(fmt.Sprintf("inter %s %s %s %s %s", h.Hex(sa), csvOf(za), h.Hex(sb), csvOf(zb), string(order)))
	}
	// 5. random short malformed streams
	nr := 300
	if thorough {
		nr = 5000
	}
	for i := 0; i < nr; i++ {
		s := rng.Bytes(rng.Intn(20))
		if len(s) >= 4 && rng.Intn(3) > 0 {
			s[0], s[1], s[2] = 0, 0, 0
			s[3] = byte(rng.Intn(24))
		}
		emit(fmt.Sprintf("rd %s %s", h.Hex(s), csvOf([]int{1 + rng.Intn(6), 1 + rng.Intn(6)})))
	}
	// 7. round 5: scripted Writes, the sendPipe / readPipe pair, two writers on one connection (pipe.go)
	genX(tier, rng, emit)
}

// shrinkLine proposes simpler variants of an `rd` case: shorter stream, simpler chunking.
func shrinkLine(line string) []string {
	w := strings.Fields(line)
	if w[0] != "rd" && w[0] != "rde" {
		return nil
	}
	op := w[0]
	s, sz := h.UnHex(w[1]), csv(w[2])
	var out []string
	if len(sz) > 1 {
		out = append(out, fmt.Sprintf(op+" %s %s", w[1], csvOf(sz[:len(sz)-1])), fmt.Sprintf(op+" %s %s", w[1], csvOf(sz[1:])))
	}
	if len(s) > 0 {
		out = append(out, fmt.Sprintf(op+" %s %s", h.Hex(s[:len(s)-1]), w[2]))
	}
	if len(s) > 5 { // drop one payload byte and decrement the announced length
		t := append([]byte{}, s[:4]...)
		if n := binary.BigEndian.Uint32(t); n > 1 {
			binary.BigEndian.PutUint32(t, n-1)
			out = append(out, fmt.Sprintf(op+" %s %s", h.Hex(append(t, s[5:]...)), w[2]))
		}
	}
	for i, k := range sz {
		if k > 1 {
			c := append([]int{}, sz...)
			c[i] = k - 1
			out = append(out, fmt.Sprintf(op+" %s %s", w[1], csvOf(c)))
		}
	}
	return out
}

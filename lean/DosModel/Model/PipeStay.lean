/-
C14, round 5 — "the receiver never goes away": decidable rules about ONE goroutine `gr`, one channel
`c` it receives from and one context `k`.  Core Lean only.

Background (/repo 3a1c0bc): `recoverSign` used to return after its single report while the query
context stayed live; `queryLoop`, which found the request still registered, then waited in
`req.reply <- content` for a stage that no longer received.  The repaired stage ends with
`defer drainSigns(ctx, signc)`: it keeps receiving until `signc` is closed or the context is done.

  staysUntil gr c k   `gr` returns only after it has observed `c` closed (closed branch of a receive on
                      `c`) or context `k` done (`<-ctx_k.Done()` alternative): no exit node is reachable
                      from the entry along other edges;
  drainsUntil gr c k  the drain phase: a non-empty set `D` of nodes, each OFFERING a receive on `c`, closed
                      under every edge except those two, and every node from which `gr` can return
                      (an edge into an exit node) lies in `D` — `gr` returns from its drain loop only.

Both are edge-local checks of labelings computed here; the soundness proofs
(`Proofs/PipeStay.lean`) use only the checks.
-/
import DosModel.Model.PipeWf

namespace Dos.Pipe

/-- the edge ends the waiting: closed branch of a receive on `c`, or the `<-ctx_k.Done()` alternative -/
def Lab.leaves (c : Ch) (k : Nat) (l : Lab) : Bool := l == .recvCl c || l == .ctx k

/-- nodes reachable from the entry along edges other than `recvCl c` / `ctx k` -/
def stayL (gr : Goroutine) (c : Ch) (k : Nat) : List Bool :=
  closeUnder (fun i => match gr.nodes[i]? with
      | some nd => nd.edges.filterMap fun e => if e.1.leaves c k then none else some e.2
      | none => [])
    (gr.nodes.length + edgeCount gr.nodes + 1) [0] (gr.nodes.map (fun _ => false))

/-- check of a labeling: it contains the entry, is closed forwards along the non-leaving edges and
    contains no exit node -/
def stayOkM (gr : Goroutine) (c : Ch) (k : Nat) (m : List Bool) : Bool :=
  mark m 0 &&
  gr.nodes.zipIdx.all fun x =>
    !mark m x.2 || (!x.1.isExit && x.1.edges.all (fun e => e.1.leaves c k || mark m e.2))

/-- `gr` does not return before `c` is closed or context `k` is done -/
def staysUntil (gr : Goroutine) (c : Ch) (k : Nat) : Bool := stayOkM gr c k (stayL gr c k)

/-- one refinement step towards the greatest set of nodes closed under the non-leaving edges -/
def drainStep (gr : Goroutine) (c : Ch) (k : Nat) (m : List Bool) : List Bool :=
  gr.nodes.zipIdx.map fun x => mark m x.2 && x.1.edges.all (fun e => e.1.leaves c k || mark m e.2)

/-- the drain phase: the greatest set of nodes that offer a receive on `c` and is closed under every
    edge other than `recvCl c` / `ctx k` -/
def drainD (gr : Goroutine) (c : Ch) (k : Nat) : List Bool :=
  iter (drainStep gr c k) gr.nodes.length (gr.nodes.map (Node.recvsOn c))

/-- check of a labeling `m` as a drain phase -/
def drainOkM (gr : Goroutine) (c : Ch) (k : Nat) (m : List Bool) : Bool :=
  gr.nodes.zipIdx.all fun x =>
    !mark m x.2 ||
      (x.1.edges.any (fun e => e.1 == Lab.recvOk c) && x.1.edges.all (fun e => e.1.leaves c k || mark m e.2))

/-- every node with an edge into an exit node is in `m`, and there is such a node -/
def exitsFrom (gr : Goroutine) (m : List Bool) : Bool :=
  (gr.nodes.zipIdx.all fun x =>
    mark m x.2 || x.1.edges.all (fun e => match gr.nodes[e.2]? with
      | some nd => !nd.isExit
      | none => true)) &&
  gr.nodes.zipIdx.any fun x => mark m x.2

/-- `gr` ends in a drain loop on `c`: it returns only from nodes at which it offers a receive on `c`
    and which it leaves only by receiving (staying in the loop), by seeing `c` closed, or by context `k` -/
def drainsUntil (gr : Goroutine) (c : Ch) (k : Nat) : Bool :=
  drainOkM gr c k (drainD gr c k) && exitsFrom gr (drainD gr c k)

/-- the rule instantiated by names on a pipeline: the goroutine called `gname` (exactly one) receives on
    the channel called `cname` (exactly one) and passes `staysUntil` and `drainsUntil` for context `k` -/
def keepsReceiving (p : Pipeline) (gname cname : String) (k : Nat) : Bool :=
  match p.gsWhere (fun gr => gr.name == gname),
        (p.chans.zipIdx.filterMap fun x => if x.1.name == cname then some x.2 else none) with
  | [g], [c] => match p.gs[g]? with
    | some gr => gr.hasRecv c && staysUntil gr c k && drainsUntil gr c k && decide (k < p.nctx)
    | none => false
  | _, _ => false

end Dos.Pipe

/-
C20 (round 4) — THE GROUP LAYER: the ref10 group code group/edwards25519/ge.go and the constants of const.go,
translated statement by statement (go/extract/ed25519ge → Gen/Ed25519Ge.lean, regenerated on every run), compute
the group law of the twisted Edwards curve −x² + y² = 1 + d x² y² over F = ZMod (2^255 − 19).

`Ge.*` are the translated methods run on the executable limb operations (Go semantics); `GoodExt e P` etc. say
that a limb structure is within the occurring limb bounds and represents the curve point `P : Pt`.
Only theorems and non-vacuity examples live here; proofs: Proofs/EdwardsCurve, EdwardsAssoc, EdwardsFormulas (pure
mathematics), GeRefine, GeSpec, GeSpec2, GeSpec3, GeBase, GeEnc.
-/
import DosModel.Proofs.GeEnc

set_option exponentiation.threshold 600

namespace Dos.Props.C20Group
open Dos Dos.Ed25519 Dos.FeProg Dos.FeOps Dos.GeProg Dos.Ge Dos.Ed25519Prime Dos.Edwards Dos.Gen.Ed25519Ge

/-- the limb constants d, d2, sqrtM1 of const.go (regenerated) satisfy their defining equations in F:
d·121666 = −121665, d2 = 2d, sqrtM1² = −1; d is not a square (Euler criterion, kernel-evaluated) -/
theorem curve_constants :
    val c_d * 121666 = -121665 ∧ val c_d2 = 2 * val c_d ∧ val c_sqrtM1 ^ 2 = -1 ∧ ¬ IsSquare (val c_d)
    ∧ Bounded 1 c_d ∧ Bounded 1 c_d2 ∧ Bounded 1 c_sqrtM1 := by
  refine ⟨?_, ?_, ?_, ?_, c_d_R.1, c_d2_R.1, c_sqrtM1_R.1⟩
  · rw [c_d_val]; exact d_mul
  · rw [c_d2_val, c_d_val]
  · rw [c_sqrtM1_val]; exact sqrtM1_sq
  · rw [c_d_val]; exact d_not_square

/-- **pure mathematics, proved**: for any field, d not a square and −1 a square, the addition law of the twisted
Edwards curve is complete (denominators never vanish) and ASSOCIATIVE; the points form a commutative group -/
theorem edwards_group_law {K : Type} [Field K] (E : Params K) :
    (∀ {x1 y1 x2 y2 : K}, OnCurve E.d x1 y1 → OnCurve E.d x2 y2 →
      1 + E.d * x1 * x2 * y1 * y2 ≠ 0 ∧ 1 - E.d * x1 * x2 * y1 * y2 ≠ 0)
    ∧ (∀ P Q R : Point E, P + Q + R = P + (Q + R)) ∧ (∀ P Q : Point E, P + Q = Q + P)
    ∧ (∀ P : Point E, 0 + P = P) ∧ (∀ P : Point E, -P + P = 0) :=
  ⟨fun h1 h2 => denom_ne_zero E h1 h2, Edwards.add_assoc', Edwards.add_comm', Edwards.zero_add', Edwards.neg_add_cancel'⟩

example : (basePt + basePt) + basePt = basePt + (basePt + basePt) := Edwards.add_assoc' _ _ _

/-- the base point constant `baseext` of const.go represents the point B = (x, 4/5) of RFC 8032, which is on the
curve and is not the identity -/
theorem base_point : GoodExt baseExt basePt ∧ basePt ≠ 0 ∧ basePt.y * 5 = 4 := by
  refine ⟨baseExt_good, basePt_ne_zero, ?_⟩
  show ((baseY : ℕ) : F) * 5 = 4
  have h : ((baseY * 5 : ℕ) : F) = ((4 : ℕ) : F) := natCast_eq_of_mod (by decide +kernel)
  push_cast at h
  exact h

/-- **generic refinement**: whatever translated method body passes the limb-bound analysis, running it on limbs with
Go's semantics and running it on field elements keep all registers related — for every binding of objects to
registers, aliased ones included -/
theorem ge_refinement {bases : List Nat} {b : Int} (hb : b = 0 ∨ b = 1) (body : List GStmt) {M M' : List Mult}
    {L : List L10} {X : List F} (h : RegRel M L X) (ha : absBody bases body M = some M') :
    RegRel M' (runBody limbAlg zero10 bases b body L) (runBody fieldAlg 0 bases b body X) :=
  body_refines hb body h ha

/-- **point.Add / Sub / Neg / Null** (point.go over ge.go) are the group operations on the represented points -/
theorem point_add_correct {p q : Ext} {P Q : Pt} (hp : GoodExt p P) (hq : GoodExt q Q) :
    GoodExt (ptAdd p q) (P + Q) ∧ GoodExt (ptSub p q) (P + -Q) ∧ GoodExt (ptNeg p) (-P) ∧ GoodExt ptNull (0 : Pt) :=
  ⟨ptAdd_spec hp hq, ptSub_spec hp hq, ptNeg_spec hp, ptNull_spec⟩

example : GoodExt (ptAdd baseExt baseExt) (basePt + basePt) := ptAdd_spec baseExt_good baseExt_good

/-- `p.Neg(p)` — receiver aliasing the argument — gives the same result -/
theorem point_neg_aliased {p : Ext} {P : Pt} (hp : GoodExt p P) : GoodExt (extNegInPlace p) (-P) :=
  extNegInPlace_spec hp

/-- the formulas: completed.Add/Sub (cached operand), MixedAdd/MixedSub (precomputed operand), projective and extended
Double, and the conversions between the coordinate systems -/
theorem ge_formulas_correct {p : Ext} {q : Cached} {t : Pre} {P Q T : Pt} (hp : GoodExt p P) (hq : GoodCached q Q)
    (ht : GoodPre t T) :
    GoodCompl (complAdd p q) (P + Q) ∧ GoodCompl (complSub p q) (P + -Q)
    ∧ GoodCompl (complMixedAdd p t) (P + T) ∧ GoodCompl (complMixedSub p t) (P + -T)
    ∧ GoodCompl (extDouble p) (P + P) ∧ GoodCached (extToCached p) P ∧ GoodProj (extToProj p) P :=
  ⟨complAdd_spec hp hq, complSub_spec hp hq, complMixedAdd_spec hp ht, complMixedSub_spec hp ht, extDouble_spec hp,
    extToCached_spec hp, extToProj_spec hp⟩

theorem ge_conversions_correct {c : Compl} {r : Proj} {P : Pt} (hc : GoodCompl c P) (hr : GoodProj r P) :
    GoodExt (complToExt c) P ∧ GoodProj (complToProj c) P ∧ GoodCompl (projDouble r) (P + P) :=
  ⟨complToExt_spec hc, complToProj_spec hc, projDouble_spec hr⟩

/-- **point.MarshalBinary** (extended.ToBytes; also projective.ToBytes): THE canonical encoding — y fully reduced,
little-endian, bit 255 = parity of the fully reduced x — whatever representation of the point is held; the
encoding determines the point -/
theorem point_encode_canonical {p : Ext} {r : Proj} {P Q : Pt} (hp : GoodExt p P) (hr : GoodProj r P) :
    extToBytes p = encPt P ∧ projToBytes r = encPt P ∧ (encPt P).length = 32 ∧ (encPt P = encPt Q → P = Q) :=
  ⟨extToBytes_spec hp, projToBytes_spec hr, encPt_length P, encPt_inj⟩

example : extToBytes baseExt = encPt basePt := extToBytes_spec baseExt_good

end Dos.Props.C20Group

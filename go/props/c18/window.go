package c18

// tw: firstEvent with its expiry timers FIRING (round 5, review E #1 and #5).
//
//	tw <windowMs> <tok,tok,…>
//
// The de-duplication window of firstEvent (package variable firstEventWindow, 1500 s in the code,
// pinned by the regenerated fact dedupWindowSeconds) is shortened through the hook
// VerifSetFirstEventWindow for the duration of the case.  Tokens:
//
//	data:blockN:tx:index:removed:payload   one log, as in fe (tx: 32 bytes or fewer, left-padded by the code)
//	x                                      a value that is not a *LogCommon
//	B<n>@<k>                               a burst of n distinct logs (data b0, block 9, tx = be32(k), index 0..n-1,
//	                                       payload k.j) fed back to back: their n timers expire together
//	w                                      nothing arrives until every timer started so far has fired
//	T<n>@<k>                               the same wait, but n NEW distinct logs (as B) trickle in while the timers
//	                                       fire: expiry goroutines run concurrently with each other AND with the loop
//
// The model (driver) turns w into one `expire` item per identity observed so far and T into those plus the n logs.
// Oracle (no model): inside one epoch (between two waits) every distinct non-removed log is delivered exactly once;
// a log observed again in a later epoch is delivered again (the window bounds exactly-once); the process survives
// (a concurrent map access in firstEvent is a fatal error of the Go runtime: crash_sigs in meta/C18.json).

import (
	"bytes"
	"context"
	"encoding/binary"
	"fmt"
	"os"
	osexec "os/exec"
	"strconv"
	"strings"
	"sync"
	"time"

	"github.com/DOSNetwork/core/onchain"

	"verifharness/internal/h"
)

type twTok struct {
	kind  byte // 'i' item, 'B', 'w', 'T'
	it    item
	n, k  int
	items []item // expansion of B / T
}

func burst(n, k int) []item {
	var r []item
	var tx [32]byte
	binary.BigEndian.PutUint32(tx[28:], uint32(k))
	for j := 0; j < n; j++ {
		r = append(r, item{data: []byte{0xb0}, blockN: 9, tx: append([]byte(nil), tx[:]...), index: uint(j), payload: fmt.Sprintf("%d.%d", k, j)})
	}
	return r
}

func parseTw(s string) []twTok {
	var r []twTok
	if s == "-" {
		return r
	}
	for _, p := range strings.Split(s, ",") {
		switch {
		case p == "w":
			r = append(r, twTok{kind: 'w'})
		case (p[0] == 'B' || p[0] == 'T') && strings.Contains(p, "@"):
			q := strings.Split(p[1:], "@")
			n, _ := strconv.Atoi(q[0])
			k, _ := strconv.Atoi(q[1])
			r = append(r, twTok{kind: p[0], n: n, k: k, items: burst(n, k)})
		default:
			r = append(r, twTok{kind: 'i', it: parseItem(p)})
		}
	}
	return r
}

var twMu sync.Mutex // the window is a package variable of the code under test: one tw case at a time

func runTw(window time.Duration, toks []twTok) (out []string, epochs [][]item, epochOut []int, slow bool) {
	old := onchain.VerifSetFirstEventWindow(window)
	defer onchain.VerifSetFirstEventWindow(old)
	ctx, cancel := context.WithCancel(context.Background())
	defer cancel()
	src := make(chan interface{})
	outc := onchain.VerifFirstEvent(ctx, src)
	var mu sync.Mutex
	done := make(chan struct{})
	go func() {
		for v := range outc {
			s := fmt.Sprintf("?%T", v)
			if p, ok := v.(*string); ok {
				s = *p
			}
			mu.Lock()
			out = append(out, s)
			mu.Unlock()
		}
		close(done)
	}()
	count := func() int { mu.Lock(); defer mu.Unlock(); return len(out) }
	var cur []item
	epochStart := time.Now()
	endEpoch := func() {
		epochs = append(epochs, cur)
		epochOut = append(epochOut, count())
		cur = nil
		epochStart = time.Now()
	}
	feed := func(it item) {
		if len(cur) == 0 {
			epochStart = time.Now()
		}
		src <- it.value()
		cur = append(cur, it)
	}
	settle := window + window/2 + 60*time.Millisecond
	for _, t := range toks {
		switch t.kind {
		case 'i':
			feed(t.it)
		case 'B':
			for _, it := range t.items {
				feed(it)
			}
		case 'w', 'T':
			// everything observed in this epoch must have arrived well inside one window, else a timer may
			// already have fired between two observations and the outcome is not a function of the line
			if time.Since(epochStart) > window/2 {
				slow = true
			}
			if t.kind == 'w' {
				time.Sleep(settle)
				endEpoch()
				break
			}
			// new logs trickle in while the timers of the epoch fire; their own timers start now
			time.Sleep(window - window/8)
			gap := (window / 4) / time.Duration(len(t.items)+1)
			prev := cur
			cur = nil
			for _, it := range t.items {
				src <- it.value()
				cur = append(cur, it)
				time.Sleep(gap)
			}
			trickled := cur
			time.Sleep(settle - (window - window/8))
			// the epoch that ended is `prev`; the trickled logs were delivered meanwhile: count them into it for
			// the per-epoch oracle (they are distinct from everything else by construction)
			cur = append(prev, trickled...)
			endEpoch()
			// their timers: wait them out too, so that the next epoch starts from an empty map
			time.Sleep(settle)
		}
	}
	time.Sleep(5 * time.Millisecond)
	endEpoch()
	close(src)
	<-done
	return
}

func execTW(w []string) (res h.Result) {
	if os.Getenv("VERIF_C18_CHILD") == "" {
		// an unguarded access to firstEvent's map is a FATAL error of the Go runtime (no recover): run the case in a child
		// process, so that the death is an observation of this case and the correspondence run goes on
		cmd := osexec.Command(os.Args[0], "exec", "C18")
		cmd.Env = append(os.Environ(), "VERIF_C18_CHILD=1")
		cmd.Stdin = strings.NewReader(strings.Join(w, " ") + "\n")
		var out, errb bytes.Buffer
		cmd.Stdout, cmd.Stderr = &out, &errb
		res.Class, res.Nontrivial = "tw", true
		if err := cmd.Run(); err != nil {
			res.Impl = "process-died"
			res.Class = "tw-died"
			why := h.OneLine(firstPanicLine(errb.String()))
			if strings.Contains(errb.String(), "concurrent map") {
				res.Oracle = "firstEvent-concurrent-map-access: the node process dies while the expiry timers of firstEvent fire: " + why
			} else {
				res.Oracle = "process-died-elsewhere: " + why
			}
			return
		}
		f := strings.SplitN(strings.TrimRight(out.String(), "\n"), "\t", 2)
		res.Impl = f[0]
		if len(f) > 1 {
			res.Oracle = f[1]
		}
		return
	}
	twMu.Lock()
	defer twMu.Unlock()
	ms, _ := strconv.Atoi(w[1])
	toks := parseTw(w[2])
	window := time.Duration(ms) * time.Millisecond
	var out []string
	var epochs [][]item
	var epochOut []int
	for try := 0; try < 4; try++ {
		var slow bool
		out, epochs, epochOut, slow = runTw(window, toks)
		if !slow {
			break
		}
		window *= 3 // the machine is busy: same case, longer window
	}
	res.Impl = showOut(out)
	res.Class = "tw"
	res.Nontrivial = true
	prev := 0
	for e, items := range epochs {
		end := epochOut[e]
		if end < prev {
			end = prev
		}
		if o := onceOracle(items, out[prev:end]); o != "" {
			res.Oracle = fmt.Sprintf("%s (epoch %d of %d, window expired between epochs)", o, e, len(epochs))
			// the first word stays the signature
			break
		}
		prev = end
	}
	return
}

/-
C20 composed with Primes — the hypothesis `hord : ∀ n, n • B = 0 → ℓ ∣ n` ("B has order exactly ℓ")
of `verify_nonmalleable_S`, `verify_S_unique`, `altered_S_rejected` and `hordA` of
`altered_message_needs_collision` (`Props/C20.lean`) DISCHARGED: ℓ is prime (`Proofs/Primes.lean`,
`ed25519_l_prime`), `ℓ • B = 0` is part of `Lawful g`, so it is enough that the base point is NOT THE
IDENTITY (`g.base ≠ 0`), resp. that the public key is `x • B` with `ℓ ∤ x`.
(`meta/C20.json` lists "l is prime (only used informally: B of order exactly l is stated as a
hypothesis)" as an assumption — this file makes the use formal and removes the assumption.)
Remaining: `Lawful g` (the ref10 point code implements a commutative group with injective encodings —
differential only) and, for altered messages, the hash.
-/
import DosModel.Props.C20
import DosModel.Proofs.ComposeSchnorr

namespace Dos.Props.C20Compose
open Dos Dos.Ed25519 Dos.Schnorr Dos.Compose

variable {G : Type} [AddCommGroup G]

/-- ℓ (the constant of `Model/Ed25519Scalar.lean`, pinned to the code by `order_constants`) is prime -/
theorem ell_is_prime : Nat.Prime ell := ell_prime

/-- **`hord` from primality**: in a lawful group whose base point is not the identity, the base point
has order exactly ℓ -/
theorem base_order_exact {g : Grp G} (L : Lawful g) (hB : g.base ≠ 0) :
    ∀ n : ℕ, n • g.base = 0 → ell ∣ n :=
  order_exact_ell g.base hB L.order

/-- **3′ full non-malleability in S**, hypothesis `hord` replaced by `g.base ≠ 0` -/
theorem verify_nonmalleable_S_composed {g : Grp G} (L : Lawful g) (hB : g.base ≠ 0)
    (H : Bytes → Bytes) (A : G) (msg sig sig' : Bytes)
    (h1 : verify g H A msg sig = .ok ()) (h2 : verify g H A msg sig' = .ok ())
    (hR : sig.take 32 = sig'.take 32) : sig = sig' :=
  Props.C20.verify_nonmalleable_S L (base_order_exact L hB) H A msg sig sig' h1 h2 hR

/-- 3″: an accepted S is THE scalar below ℓ satisfying the verification equation -/
theorem verify_S_unique_composed {g : Grp G} (L : Lawful g) (hB : g.base ≠ 0)
    (H : Bytes → Bytes) (A : G) (msg sig : Bytes) (h : verify g H A msg sig = .ok ()) :
    leNat (sig.drop 32) < ell ∧ ∃ R, g.dec (sig.take 32) = some R ∧
      ∀ t : ℕ, t < ell → t • g.base = R + challenge g H A R msg • A → t = leNat (sig.drop 32) :=
  Props.C20.verify_S_unique L (base_order_exact L hB) H A msg sig h

/-- altered S (same R, key, message) is rejected -/
theorem altered_S_rejected_composed {g : Grp G} (L : Lawful g) (hB : g.base ≠ 0)
    (H : Bytes → Bytes) (A : G) (msg sig sig' : Bytes) (h1 : verify g H A msg sig = .ok ())
    (hR : sig.take 32 = sig'.take 32) (hne : sig' ≠ sig) : verify g H A msg sig' ≠ .ok () :=
  Props.C20.altered_S_rejected L (base_order_exact L hB) H A msg sig sig' h1 hR hne

/-- an altered message accepted with the same signature under a public key `A = x•B`, `ℓ ∤ x` (every key
`Sign` can be used with, except the zero key) is a collision of the challenge hash modulo ℓ -/
theorem altered_message_needs_collision_composed {g : Grp G} (L : Lawful g) (hB : g.base ≠ 0)
    (H : Bytes → Bytes) (x : ℕ) (hx : ¬ ell ∣ x) (msg msg' sig : Bytes)
    (h1 : verify g H (g.smul x g.base) msg sig = .ok ())
    (h2 : verify g H (g.smul x g.base) msg' sig = .ok ()) :
    ∃ R, g.dec (sig.take 32) = some R ∧
      challenge g H (g.smul x g.base) R msg = challenge g H (g.smul x g.base) R msg' := by
  refine Props.C20.altered_message_needs_collision L H _ ?_ msg msg' sig h1 h2
  rw [L.smul_eq]
  exact order_exact_ell_multiple g.base hB L.order x hx

/-- a signature made by `Sign` is the ONLY accepted signature with its R part (completeness +
non-malleability, no order hypothesis) -/
theorem signed_unique_for_R {g : Grp G} (L : Lawful g) (hB : g.base ≠ 0) (H : Bytes → Bytes)
    (x k : ℕ) (msg sig' : Bytes) (h : verify g H (g.smul x g.base) msg sig' = .ok ())
    (hR : (sign g H x k msg).take 32 = sig'.take 32) : sign g H x k msg = sig' :=
  verify_nonmalleable_S_composed L hB H _ msg _ sig' (Props.C20.sign_verifies L H x k msg).1 h hR

/-! non-vacuity: the discrete-log group `ZMod ℓ`, `B = 1 ≠ 0` -/

theorem dlog_base_ne_zero : dlogGrp.base ≠ 0 := by
  show (1 : ZMod ell) ≠ 0
  have : Fact (1 < ell) := ⟨by decide⟩
  exact one_ne_zero

example (sig' : Bytes) (h : verify dlogGrp (fun b => b) (dlogGrp.smul 5 dlogGrp.base) [9] sig' = .ok ())
    (hR : (sign dlogGrp (fun b => b) 5 7 [9]).take 32 = sig'.take 32) : sign dlogGrp (fun b => b) 5 7 [9] = sig' :=
  signed_unique_for_R dlogGrp_lawful dlog_base_ne_zero _ 5 7 [9] sig' h hR

example : ∀ n : ℕ, n • dlogGrp.base = 0 → ell ∣ n := base_order_exact dlogGrp_lawful dlog_base_ne_zero

example : ¬ ell ∣ 5 := by decide

end Dos.Props.C20Compose

// corr: correspondence harness. It runs the REAL DOSNetwork/core code
// (built from /repo with -tags verif) on generated, self-contained case lines.
//
//	corr gen  <Cxx> <tier> <seed> <outdir>   corpus + generated cases → ops.txt impl.txt oracle.txt stats.json
//	corr exec <Cxx>                           case lines on stdin → "impl<TAB>oracle" per line
package h

import (
	"bufio"
	"encoding/json"
	"fmt"
	"io/ioutil"
	"os"
	"path/filepath"
	"sort"
	"strconv"
	"strings"
)

func Main() {
	if len(os.Args) < 3 {
		fmt.Fprintln(os.Stderr, "usage: corr gen|exec <Cxx> ...")
		os.Exit(2)
	}
	p := Lookup(os.Args[2])
	if p == nil {
		fmt.Fprintln(os.Stderr, "unknown property", os.Args[2], "have", IDs())
		os.Exit(2)
	}
	switch os.Args[1] {
	case "exec":
		sc := bufio.NewScanner(os.Stdin)
		sc.Buffer(make([]byte, 1<<20), 1<<28)
		w := bufio.NewWriter(os.Stdout)
		for sc.Scan() {
			line := strings.TrimRight(sc.Text(), "\r\n")
			if line == "" {
				continue
			}
			r := SafeExec(p, line)
			fmt.Fprintf(w, "%s\t%s\n", r.Impl, r.Oracle)
			w.Flush()
		}
	case "gen":
		if len(os.Args) < 6 {
			fmt.Fprintln(os.Stderr, "usage: corr gen <Cxx> <tier> <seed> <outdir>")
			os.Exit(2)
		}
		tier := os.Args[3]
		seed, _ := strconv.ParseUint(os.Args[4], 10, 64)
		out := os.Args[5]
		gen(p, tier, seed, out)
	default:
		os.Exit(2)
	}
}

func gen(p *Prop, tier string, seed uint64, out string) {
	os.MkdirAll(out, 0o755)
	ops, _ := os.Create(filepath.Join(out, "ops.txt"))
	impl, _ := os.Create(filepath.Join(out, "impl.txt"))
	orc, _ := os.Create(filepath.Join(out, "oracle.txt"))
	wo, wi, wr := bufio.NewWriter(ops), bufio.NewWriter(impl), bufio.NewWriter(orc)
	hist := map[string]int{}
	distinct := map[string]bool{}
	var samples []string
	n, viol, corpusN := 0, 0, 0
	shrunk := map[string]bool{}
	run := func(line string) {
		// the case line reaches the file before the real code runs: if a goroutine panic
		// kills the process, the last line of ops.txt is the case that did it
		fmt.Fprintln(wo, line)
		wo.Flush()
		r := SafeExec(p, line)
		fmt.Fprintln(wi, r.Impl)
		if r.Oracle != "" {
			min := ""
			if sig := sigOf(r.Oracle); p.Shrink != nil && !shrunk[sig] {
				shrunk[sig] = true
				min = shrink(p, line, sig)
			}
			fmt.Fprintf(wr, "%d\t%s\t%s\n", n, strings.ReplaceAll(r.Oracle, "\t", " "), min)
			wr.Flush()
			viol++
		}
		if r.Class == "" {
			r.Class = "unclassified"
		}
		hist[r.Class]++
		if r.Nontrivial {
			distinct[line] = true
		}
		if len(samples) < 6 && (n%97 == 0 || len(samples) == 0) {
			s := line
			if len(s) > 300 {
				s = s[:300] + "…"
			}
			samples = append(samples, s+"  =>  "+OneLine(r.Impl))
		}
		n++
	}
	// minimised past failures first
	if dir := os.Getenv("VERIF_CORPUS"); dir != "" {
		files, _ := filepath.Glob(filepath.Join(dir, p.ID, "*.txt"))
		sort.Strings(files)
		for _, f := range files {
			b, _ := ioutil.ReadFile(f)
			for _, l := range strings.Split(string(b), "\n") {
				l = strings.TrimSpace(l)
				if l != "" && !strings.HasPrefix(l, "#") {
					run(l)
					corpusN++
				}
			}
		}
	}
	p.Gen(tier, NewRng(seed), run)
	wo.Flush()
	wi.Flush()
	wr.Flush()
	ops.Close()
	impl.Close()
	orc.Close()
	ex := false
	if p.Exhaustive != nil {
		ex = p.Exhaustive(tier)
	}
	st := map[string]interface{}{
		"evaluations": n, "distinct_nontrivial": len(distinct), "rule": p.Rule,
		"samples": samples, "distribution": hist, "oracle_violations": viol,
		"corpus_cases": corpusN, "exhaustive": ex, "no_driver": p.NoDrv,
	}
	b, _ := json.MarshalIndent(st, "", " ")
	ioutil.WriteFile(filepath.Join(out, "stats.json"), b, 0o644)
}

func sigOf(oracle string) string {
	if i := strings.Index(oracle, ":"); i >= 0 {
		return strings.TrimSpace(oracle[:i])
	}
	return strings.TrimSpace(oracle)
}

// shrink: greedy descent over the plug-in's proposals, keeping the oracle sig.
func shrink(p *Prop, line, sig string) string {
	cur := line
	for steps := 0; steps < 300; steps++ {
		improved := false
		for _, c := range p.Shrink(cur) {
			if c == cur || len(c) > len(cur) {
				continue
			}
			if r := SafeExec(p, c); r.Oracle != "" && sigOf(r.Oracle) == sig {
				cur, improved = c, true
				break
			}
		}
		if !improved {
			break
		}
	}
	if cur == line {
		return ""
	}
	return cur
}

/-
C20 (round 4) — the translated group methods of ge.go compute the twisted Edwards group law.

`E25519`   : the curve −x² + y² = 1 + d x² y² over F = ZMod (2^255 − 19), with d and sqrt(−1) the values of the limb
             constants `d`, `sqrtM1` of const.go (regenerated), d not a square, −1 = sqrtM1².
`GoodExt p P`, `GoodProj`, `GoodCompl`, `GoodCached`, `GoodPre`: a limb structure is within the limb bounds that
             occur (extended: X within 2 ×, the rest 1 ×; completed 3 ×; cached 3,3,1,1; precomputed 1 ×) and
             represents the curve point P.
For every translated method: if the arguments are good, no fe operation inside is used outside its proved
preconditions (multiplier analysis `absBody`, decided by the kernel on the regenerated body) and the result is good
for the sum / difference / double / same point (field run of the SAME body + the formulas of
Proofs/EdwardsFormulas.lean).
-/
import Mathlib.Tactic.FieldSimp
import Mathlib.Tactic.LinearCombination
import DosModel.Proofs.GeRefine
import DosModel.Proofs.EdwardsAssoc
import DosModel.Proofs.EdwardsFormulas

set_option exponentiation.threshold 600

namespace Dos.Ge
open Dos Dos.Ed25519 Dos.FeProg Dos.FeOps Dos.GeProg Dos.Ed25519Prime Dos.Edwards Dos.Gen.Ed25519Ge

/-- the Ed25519 curve parameters -/
def E25519 : Params F :=
  { d := ((Dos.Ed.d : ℕ) : F), i := ((Dos.Ed.sqrtM1 : ℕ) : F), i_sq := sqrtM1_sq, d_nonsq := d_not_square,
    two_ne := two_ne_zero' }

abbrev Pt := Point E25519

/-! ### the constants of const.go -/

theorem natCast_eq_intCast (n : ℕ) : ((n : ℕ) : F) = (((n : ℕ) : Int) : F) := by simp

theorem val_of_modP {l : L10} {n : ℕ} (h : ModP (feVal l) (n : Int)) : val l = ((n : ℕ) : F) := by
  unfold val
  rw [ModP.cast h]; simp

theorem c_d_val : val c_d = E25519.d := val_of_modP (by unfold ModP; decide +kernel)
theorem c_sqrtM1_val : val c_sqrtM1 = E25519.i := val_of_modP (by unfold ModP; decide +kernel)
theorem c_d2_val : val c_d2 = 2 * E25519.d := by
  have h : ModP (feVal c_d2) (2 * (Dos.Ed.d : Int)) := by unfold ModP; decide +kernel
  unfold val
  rw [ModP.cast h]
  simp [E25519]

theorem c_d_R : R 1 c_d E25519.d := ⟨by decide, c_d_val⟩
theorem c_d2_R : R 1 c_d2 (2 * E25519.d) := ⟨by decide, c_d2_val⟩
theorem c_sqrtM1_R : R 1 c_sqrtM1 E25519.i := ⟨by decide, c_sqrtM1_val⟩

/-- the constants d, 2d, sqrt(−1) as field registers -/
def constsF : List F := [E25519.d, 2 * E25519.d, E25519.i]

/-! ### register files -/

theorem regRel_nil : RegRel [] [] [] := ⟨rfl, rfl, fun i k h => by simp at h⟩

theorem regRel_cons {m : Mult} {l : L10} {x : F} {M : List Mult} {L : List L10} {X : List F}
    (h0 : ∀ k, m = some k → R k l x) (h : RegRel M L X) : RegRel (m :: M) (l :: L) (x :: X) := by
  obtain ⟨h1, h2, h3⟩ := h
  refine ⟨by simp [h1], by simp [h2], ?_⟩
  intro i k hk
  cases i with
  | zero => exact h0 k (by simpa using hk)
  | succ i => simpa using h3 i k (by simpa using hk)

theorem regRel_some {k : Nat} {l : L10} {x : F} {M : List Mult} {L : List L10} {X : List F}
    (h0 : R k l x) (h : RegRel M L X) : RegRel (some k :: M) (l :: L) (x :: X) :=
  regRel_cons (fun k' hk => by cases Option.some.inj hk; exact h0) h

theorem regRel_none {l : L10} {x : F} {M : List Mult} {L : List L10} {X : List F}
    (h : RegRel M L X) : RegRel (none :: M) (l :: L) (x :: X) :=
  regRel_cons (fun k' hk => by cases hk) h

theorem regRel_consts : RegRel [some 1, some 1, some 1] consts constsF :=
  regRel_some c_d_R (regRel_some c_d2_R (regRel_some c_sqrtM1_R regRel_nil))

theorem RegRel.append {M1 M2 : List Mult} {L1 L2 : List L10} {X1 X2 : List F} (h1 : RegRel M1 L1 X1)
    (h2 : RegRel M2 L2 X2) : RegRel (M1 ++ M2) (L1 ++ L2) (X1 ++ X2) := by
  induction M1 generalizing L1 X1 with
  | nil =>
    obtain ⟨a, b, _⟩ := h1
    have : L1 = [] := List.length_eq_zero_iff.1 (by simpa using a)
    have : X1 = [] := List.length_eq_zero_iff.1 (by simpa using b)
    subst_vars
    simpa using h2
  | cons m M ih =>
    obtain ⟨a, b, c⟩ := h1
    cases L1 with
    | nil => simp at a
    | cons l L =>
      cases X1 with
      | nil => simp at b
      | cons x X =>
        have ht : RegRel M L X := ⟨by simpa using a, by simpa using b, fun i k hk => by simpa using c (i + 1) k (by simpa using hk)⟩
        exact regRel_cons (fun k hk => by simpa using c 0 k (by simpa using hk)) (ih ht)

/-- value relation with the value itself -/
theorem R_val {k : Nat} {l : L10} (h : Bounded (k : Int) l) : R k l (val l) := ⟨h, rfl⟩

/-! ### representation invariants -/

structure GoodExt (p : Ext) (P : Pt) : Prop where
  bX : Bounded 2 p.X
  bY : Bounded 1 p.Y
  bZ : Bounded 1 p.Z
  bT : Bounded 1 p.T
  z_ne : val p.Z ≠ 0
  xy : val p.X * val p.Y = val p.Z * val p.T
  hx : val p.X / val p.Z = P.x
  hy : val p.Y / val p.Z = P.y

structure GoodProj (p : Proj) (P : Pt) : Prop where
  bX : Bounded 2 p.X
  bY : Bounded 1 p.Y
  bZ : Bounded 1 p.Z
  z_ne : val p.Z ≠ 0
  hx : val p.X / val p.Z = P.x
  hy : val p.Y / val p.Z = P.y

structure GoodCompl (c : Compl) (P : Pt) : Prop where
  bX : Bounded 3 c.X
  bY : Bounded 3 c.Y
  bZ : Bounded 3 c.Z
  bT : Bounded 3 c.T
  z_ne : val c.Z ≠ 0
  t_ne : val c.T ≠ 0
  hx : val c.X / val c.Z = P.x
  hy : val c.Y / val c.T = P.y

/-- cached (Y+X, Y−X, Z, 2dT) of an extended representation (X:Y:Z:T) of P -/
structure GoodCached (q : Cached) (P : Pt) : Prop where
  bP : Bounded 3 q.yPlusX
  bM : Bounded 3 q.yMinusX
  bZ : Bounded 1 q.Z
  bT : Bounded 1 q.T2d
  rep : ∃ X Y T : F, val q.yPlusX = Y + X ∧ val q.yMinusX = Y - X ∧ val q.T2d = T * (2 * E25519.d)
    ∧ val q.Z ≠ 0 ∧ X * Y = val q.Z * T ∧ X / val q.Z = P.x ∧ Y / val q.Z = P.y

/-- precomputed (y+x, y−x, 2dxy) of the affine point P -/
structure GoodPre (q : Pre) (P : Pt) : Prop where
  bP : Bounded 1 q.yPlusX
  bM : Bounded 1 q.yMinusX
  bD : Bounded 1 q.xy2d
  hp : val q.yPlusX = P.y + P.x
  hm : val q.yMinusX = P.y - P.x
  hd : val q.xy2d = 2 * E25519.d * P.x * P.y

theorem pt_eq {P : Pt} {x y : F} (h : OnCurve E25519.d x y) (hx : x = P.x) (hy : y = P.y) : (⟨x, y, h⟩ : Pt) = P := by
  ext <;> assumption

theorem onCurve_of {P : Pt} {x y : F} (hx : x = P.x) (hy : y = P.y) : OnCurve E25519.d x y := by
  rw [hx, hy]; exact P.on

/-- a translated method called as `Ge.call` does: objects in sequence, locals zero, constants last -/
theorem call_refines (f : GeFn) (objs : List (List L10)) (nLoc : Nat) (b : Int) (hb : b = 0 ∨ b = 1)
    {M0 M1 : List Mult} {X0 : List F} (hrel : RegRel M0 objs.flatten X0)
    (habs : absBody (seqBases f.objs 0) f.body (M0 ++ List.replicate nLoc (some 1) ++ [some 1, some 1, some 1]) = some M1) :
    RegRel M1 (call f objs nLoc b)
      (runBody fieldAlg 0 (seqBases f.objs 0) b f.body (X0 ++ List.replicate nLoc 0 ++ constsF)) := by
  have hz : ∀ n : Nat, RegRel (List.replicate n (some 1)) (List.replicate n z10) (List.replicate n (0 : F)) := by
    intro n
    induction n with
    | zero => exact regRel_nil
    | succ n ih => exact regRel_some zero10_R ih
  unfold call
  exact body_refines hb f.body (RegRel.append (RegRel.append hrel (hz nLoc)) regRel_consts) habs

end Dos.Ge

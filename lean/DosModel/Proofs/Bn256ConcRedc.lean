/-
Montgomery reduction on numbers is correct: `redc T · R ≡ T (mod p)` for every `T < R·p`, hence
`montEncode x = x·R mod p`, `montDecode a = a·R⁻¹ mod p` and `montDecode (montEncode x) = x mod p`:
the limb values `UnmarshalBinary` stores decode back to the coordinate that was read.
(Numbers, not limbs: limb-level `gfpMul` = `redc` is C10's subject.)
-/
import Mathlib.Data.Nat.ModEq
import DosModel.Proofs.Bn256ConcMont

namespace Dos.Bn256
open Dos

theorem np_spec : R ∣ np * p + 1 := Nat.dvd_of_mod_eq_zero (by decide)
theorem rInv_spec : rInv * R ≡ 1 [MOD p] := by decide
theorem r2_spec : r2 ≡ R * R [MOD p] := by decide

/-- the sum `T + m·p` that REDC divides by R is a multiple of R -/
theorem redc_sum_dvd (T : Nat) : R ∣ T + (T % R * np % R) * p := by
  have h1 : T % R * np % R ≡ T * np [MOD R] :=
    (Nat.mod_modEq _ R).trans ((Nat.mod_modEq T R).mul_right np)
  have h2 : T + (T % R * np % R) * p ≡ T + T * np * p [MOD R] :=
    Nat.ModEq.add_left T (h1.mul_right p)
  have h3 : T + T * np * p = T * (np * p + 1) := by
    rw [Nat.mul_add, Nat.mul_one, Nat.add_comm, Nat.mul_assoc]
  have h4 : T * (np * p + 1) ≡ 0 [MOD R] :=
    (Nat.modEq_zero_iff_dvd).mpr (Dvd.dvd.mul_left np_spec T)
  rw [h3] at h2
  exact (Nat.modEq_zero_iff_dvd).mp (h2.trans h4)

/-- **REDC is correct** for every input below R·p -/
theorem redc_spec (T : Nat) : redc T * R ≡ T [MOD p] := by
  unfold redc
  generalize hm : T % R * np % R = m
  have hd : R ∣ T + m * p := by rw [← hm]; exact redc_sum_dvd T
  have hu : (T + m * p) / R * R = T + m * p := Nat.div_mul_cancel hd
  have h1 : (T + m * p) / R * R ≡ T [MOD p] := by
    rw [hu]
    have : T + m * p ≡ T + 0 [MOD p] :=
      Nat.ModEq.add_left T ((Nat.modEq_zero_iff_dvd).mpr (Dvd.intro_left m rfl))
    simpa using this
  simp only []
  split
  · rename_i hge
    have h2 : ((T + m * p) / R - p) * R + p * R = (T + m * p) / R * R := by
      rw [← Nat.add_mul, Nat.sub_add_cancel hge]
    have h3 : ((T + m * p) / R - p) * R + p * R ≡ ((T + m * p) / R - p) * R + 0 [MOD p] :=
      Nat.ModEq.add_left _ ((Nat.modEq_zero_iff_dvd).mpr (Dvd.intro R rfl))
    rw [h2] at h3
    exact (by simpa using h3.symm : ((T + m * p) / R - p) * R ≡ (T + m * p) / R * R [MOD p]).trans h1
  · exact h1

/-- cancel the factor R modulo p -/
theorem cancel_R (a b : Nat) (h : a * R ≡ b * R [MOD p]) : a ≡ b [MOD p] := by
  have h1 : a * R * rInv ≡ b * R * rInv [MOD p] := h.mul_right rInv
  have e : ∀ c, c * R * rInv ≡ c [MOD p] := by
    intro c
    have : c * (rInv * R) ≡ c * 1 [MOD p] := rInv_spec.mul_left c
    rw [Nat.mul_one] at this
    rwa [Nat.mul_assoc, Nat.mul_comm R rInv]
  exact ((e a).symm.trans h1).trans (e b)

theorem montDecode_mul_R (a : Nat) : montDecode a * R ≡ a [MOD p] := by
  have h : montDecode a * R ≡ a * 1 [MOD p] := redc_spec (a * 1)
  have e : a * 1 = a := Nat.mul_one a
  exact h.trans (by rw [e])

/-- `montEncode x = x·R mod p` for every 256-bit x (reduced or not) -/
theorem montEncode_spec (x : Nat) (hx : x < R) : montEncode x = x * R % p := by
  have hlt := montEncode_lt x hx
  have h1 : montEncode x * R ≡ x * r2 [MOD p] := redc_spec (x * r2)
  have h2 : x * r2 ≡ x * R * R [MOD p] := by
    rw [Nat.mul_assoc]; exact r2_spec.mul_left x
  have h3 : montEncode x ≡ x * R [MOD p] := cancel_R _ _ (h1.trans h2)
  have := h3
  unfold Nat.ModEq at this
  rw [Nat.mod_eq_of_lt hlt] at this
  exact this

/-- `montDecode a = a·R⁻¹ mod p` for every limb value a -/
theorem montDecode_spec (a : Nat) (ha : a < R) : montDecode a = a * rInv % p := by
  have hlt := montDecode_lt a ha
  have h1 : montDecode a * R ≡ a [MOD p] := montDecode_mul_R a
  have h2 : a * rInv * R ≡ a [MOD p] := by
    have : a * (rInv * R) ≡ a * 1 [MOD p] := rInv_spec.mul_left a
    rw [Nat.mul_one] at this
    rwa [Nat.mul_assoc]
  have h3 : montDecode a ≡ a * rInv [MOD p] := cancel_R _ _ (h1.trans h2.symm)
  have := h3
  unfold Nat.ModEq at this
  rw [Nat.mod_eq_of_lt hlt] at this
  exact this

/-- **decode ∘ encode = reduction mod p**: what `MarshalBinary` emits for the limbs that
`UnmarshalBinary` stored for the word x is x mod p (so x itself for a canonical word) -/
theorem montDecode_montEncode (x : Nat) (hx : x < R) : montDecode (montEncode x) = x % p := by
  have hlt := montEncode_lt x hx
  have hltR : montEncode x < R := Nat.lt_trans hlt p_lt_R
  have h1 : montDecode (montEncode x) * R ≡ montEncode x [MOD p] := montDecode_mul_R _
  have h1' : montEncode x ≡ x * R [MOD p] := by
    rw [montEncode_spec x hx]; exact Nat.mod_modEq _ _
  have h2 : montDecode (montEncode x) * R ≡ x * R [MOD p] := h1.trans h1'
  have h3 := cancel_R _ _ h2
  have hd := montDecode_lt _ hltR
  unfold Nat.ModEq at h3
  rw [Nat.mod_eq_of_lt hd] at h3
  exact h3

end Dos.Bn256

/-
C20 — the ref10 coordinate formulas compute the Edwards addition law of `EdwardsCurve.lean`.

A curve point (x, y) is represented by extended coordinates (X : Y : Z : T) with Z ≠ 0,
x = X/Z, y = Y/Z, X·Y = Z·T (projective: drop T). ref10's Add / Sub / MixedAdd / MixedSub /
Double produce a "completed" point ((cX : cZ), (cY : cT)); the theorems below say that
cZ ≠ 0, cT ≠ 0, cX/cZ and cY/cT are the coordinates of the Edwards sum (resp. difference,
double). `completed_toExtended` / `completed_toProjective` are the conversions back.

Every intermediate value is a variable tied to its defining expression by a hypothesis, so a
caller can discharge them with `rfl` against a transcription that computes in the same order.
Pure field identities; the only non-trivial input is completeness (`denom_ne_zero`).
-/
import DosModel.Proofs.EdwardsCurve

namespace Dos.Edwards

variable {K : Type*} [Field K]

/-- If the completed coordinates are a common non-zero multiple k of the numerators and
denominators of the addition law, they represent the same quotients. -/
theorem completed_of_scaled {k N Dp M Dm cX cY cZ cT : K} (hk : k ≠ 0) (hDp : Dp ≠ 0)
    (hDm : Dm ≠ 0) (hX : cX = k * N) (hZ : cZ = k * Dp) (hY : cY = k * M) (hT : cT = k * Dm) :
    cZ ≠ 0 ∧ cT ≠ 0 ∧ cX / cZ = N / Dp ∧ cY / cT = M / Dm := by
  subst hX hZ hY hT
  exact ⟨mul_ne_zero hk hDp, mul_ne_zero hk hDm, mul_div_mul_left _ _ hk, mul_div_mul_left _ _ hk⟩

/-- completed ((cX:cZ),(cY:cT)) → extended (cX·cT : cY·cZ : cZ·cT : cX·cY) -/
theorem completed_toExtended {cX cY cZ cT x y : K} (hZ : cZ ≠ 0) (hT : cT ≠ 0)
    (hx : cX / cZ = x) (hy : cY / cT = y) :
    cZ * cT ≠ 0 ∧ (cX * cT) / (cZ * cT) = x ∧ (cY * cZ) / (cZ * cT) = y
      ∧ (cX * cT) * (cY * cZ) = (cZ * cT) * (cX * cY) := by
  refine ⟨mul_ne_zero hZ hT, ?_, ?_, by ring⟩
  · rw [mul_div_mul_right _ _ hT, hx]
  · rw [mul_comm cZ cT, mul_div_mul_right _ _ hZ, hy]

/-- completed ((cX:cZ),(cY:cT)) → projective (cX·cT : cY·cZ : cZ·cT) -/
theorem completed_toProjective {cX cY cZ cT x y : K} (hZ : cZ ≠ 0) (hT : cT ≠ 0)
    (hx : cX / cZ = x) (hy : cY / cT = y) :
    cZ * cT ≠ 0 ∧ (cX * cT) / (cZ * cT) = x ∧ (cY * cZ) / (cZ * cT) = y :=
  let ⟨a, b, c, _⟩ := completed_toExtended hZ hT hx hy
  ⟨a, b, c⟩

/-- extended → projective: forget T (trivial, recorded for completeness) -/
theorem extended_toProjective {X Y Z x y : K} (hZ : Z ≠ 0) (hx : X / Z = x) (hy : Y / Z = y) :
    Z ≠ 0 ∧ X / Z = x ∧ Y / Z = y := ⟨hZ, hx, hy⟩

/-- X = (X/Z)·Z, and T = (X/Z)(Y/Z)·Z from X·Y = Z·T -/
private theorem repr_T {X Y Z T : K} (hZ : Z ≠ 0) (hT : X * Y = Z * T) :
    T = X / Z * (Y / Z) * Z := by
  field_simp
  linear_combination -hT

private theorem repr_X {X Z : K} (hZ : Z ≠ 0) : X = X / Z * Z := by field_simp

/-- ref10 `ge_add` (extended + cached → completed): computes P1 + P2. -/
theorem add_formula (E : Params K)
    {X1 Y1 Z1 T1 X2 Y2 Z2 T2 d2 A B C D cX cY cZ cT : K}
    (hZ1 : Z1 ≠ 0) (hT1 : X1 * Y1 = Z1 * T1) (h1 : OnCurve E.d (X1 / Z1) (Y1 / Z1))
    (hZ2 : Z2 ≠ 0) (hT2 : X2 * Y2 = Z2 * T2) (h2 : OnCurve E.d (X2 / Z2) (Y2 / Z2))
    (hd2 : d2 = 2 * E.d)
    (hA : A = (Y1 - X1) * (Y2 - X2)) (hB : B = (Y1 + X1) * (Y2 + X2))
    (hC : C = T2 * d2 * T1) (hD : D = 2 * (Z1 * Z2))
    (hcX : cX = B - A) (hcY : cY = B + A) (hcZ : cZ = D + C) (hcT : cT = D - C) :
    cZ ≠ 0 ∧ cT ≠ 0
      ∧ cX / cZ = ((⟨X1 / Z1, Y1 / Z1, h1⟩ + ⟨X2 / Z2, Y2 / Z2, h2⟩ : Point E)).x
      ∧ cY / cT = ((⟨X1 / Z1, Y1 / Z1, h1⟩ + ⟨X2 / Z2, Y2 / Z2, h2⟩ : Point E)).y := by
  obtain ⟨hp, hm⟩ := denom_ne_zero E h1 h2
  have hk : 2 * (Z1 * Z2) ≠ 0 := mul_ne_zero E.two_ne (mul_ne_zero hZ1 hZ2)
  have eT1 := repr_T hZ1 hT1
  have eT2 := repr_T hZ2 hT2
  have eX1 : X1 = X1 / Z1 * Z1 := repr_X hZ1
  have eY1 : Y1 = Y1 / Z1 * Z1 := repr_X hZ1
  have eX2 : X2 = X2 / Z2 * Z2 := repr_X hZ2
  have eY2 : Y2 = Y2 / Z2 * Z2 := repr_X hZ2
  simp only [add_x, add_y]
  clear h1 h2 hT1 hT2
  generalize X1 / Z1 = x1 at *
  generalize Y1 / Z1 = y1 at *
  generalize X2 / Z2 = x2 at *
  generalize Y2 / Z2 = y2 at *
  subst hd2 hA hB hC hD hcX hcY hcZ hcT eT1 eT2 eX1 eY1 eX2 eY2
  exact completed_of_scaled hk hp hm (by ring) (by ring) (by ring) (by ring)

/-- ref10 `ge_sub` (extended − cached → completed): computes P1 + (−P2). -/
theorem sub_formula (E : Params K)
    {X1 Y1 Z1 T1 X2 Y2 Z2 T2 d2 A B C D cX cY cZ cT : K}
    (hZ1 : Z1 ≠ 0) (hT1 : X1 * Y1 = Z1 * T1) (h1 : OnCurve E.d (X1 / Z1) (Y1 / Z1))
    (hZ2 : Z2 ≠ 0) (hT2 : X2 * Y2 = Z2 * T2) (h2 : OnCurve E.d (X2 / Z2) (Y2 / Z2))
    (hd2 : d2 = 2 * E.d)
    (hA : A = (Y1 - X1) * (Y2 + X2)) (hB : B = (Y1 + X1) * (Y2 - X2))
    (hC : C = T2 * d2 * T1) (hD : D = 2 * (Z1 * Z2))
    (hcX : cX = B - A) (hcY : cY = B + A) (hcZ : cZ = D - C) (hcT : cT = D + C) :
    cZ ≠ 0 ∧ cT ≠ 0
      ∧ cX / cZ = ((⟨X1 / Z1, Y1 / Z1, h1⟩ + -⟨X2 / Z2, Y2 / Z2, h2⟩ : Point E)).x
      ∧ cY / cT = ((⟨X1 / Z1, Y1 / Z1, h1⟩ + -⟨X2 / Z2, Y2 / Z2, h2⟩ : Point E)).y := by
  obtain ⟨hp, hm⟩ := denom_ne_zero E h1 (neg_onCurve h2)
  have hk : 2 * (Z1 * Z2) ≠ 0 := mul_ne_zero E.two_ne (mul_ne_zero hZ1 hZ2)
  have eT1 := repr_T hZ1 hT1
  have eT2 := repr_T hZ2 hT2
  have eX1 : X1 = X1 / Z1 * Z1 := repr_X hZ1
  have eY1 : Y1 = Y1 / Z1 * Z1 := repr_X hZ1
  have eX2 : X2 = X2 / Z2 * Z2 := repr_X hZ2
  have eY2 : Y2 = Y2 / Z2 * Z2 := repr_X hZ2
  simp only [add_x, add_y, neg_x, neg_y]
  clear h1 h2 hT1 hT2
  generalize X1 / Z1 = x1 at *
  generalize Y1 / Z1 = y1 at *
  generalize X2 / Z2 = x2 at *
  generalize Y2 / Z2 = y2 at *
  subst hd2 hA hB hC hD hcX hcY hcZ hcT eT1 eT2 eX1 eY1 eX2 eY2
  exact completed_of_scaled hk hp hm (by ring) (by ring) (by ring) (by ring)

/-- ref10 `ge_madd` (extended + precomputed affine → completed): computes P1 + (x2, y2). -/
theorem madd_formula (E : Params K)
    {X1 Y1 Z1 T1 x2 y2 yPlusX yMinusX xy2d A B C D cX cY cZ cT : K}
    (hZ1 : Z1 ≠ 0) (hT1 : X1 * Y1 = Z1 * T1) (h1 : OnCurve E.d (X1 / Z1) (Y1 / Z1))
    (h2 : OnCurve E.d x2 y2)
    (hyp : yPlusX = y2 + x2) (hym : yMinusX = y2 - x2) (hxy : xy2d = 2 * E.d * x2 * y2)
    (hA : A = (Y1 - X1) * yMinusX) (hB : B = (Y1 + X1) * yPlusX)
    (hC : C = xy2d * T1) (hD : D = 2 * Z1)
    (hcX : cX = B - A) (hcY : cY = B + A) (hcZ : cZ = D + C) (hcT : cT = D - C) :
    cZ ≠ 0 ∧ cT ≠ 0
      ∧ cX / cZ = ((⟨X1 / Z1, Y1 / Z1, h1⟩ + ⟨x2, y2, h2⟩ : Point E)).x
      ∧ cY / cT = ((⟨X1 / Z1, Y1 / Z1, h1⟩ + ⟨x2, y2, h2⟩ : Point E)).y := by
  obtain ⟨hp, hm⟩ := denom_ne_zero E h1 h2
  have hk : 2 * Z1 ≠ 0 := mul_ne_zero E.two_ne hZ1
  have eT1 := repr_T hZ1 hT1
  have eX1 : X1 = X1 / Z1 * Z1 := repr_X hZ1
  have eY1 : Y1 = Y1 / Z1 * Z1 := repr_X hZ1
  simp only [add_x, add_y]
  clear h1 h2 hT1
  generalize X1 / Z1 = x1 at *
  generalize Y1 / Z1 = y1 at *
  subst hyp hym hxy hA hB hC hD hcX hcY hcZ hcT eT1 eX1 eY1
  exact completed_of_scaled hk hp hm (by ring) (by ring) (by ring) (by ring)

/-- ref10 `ge_msub` (extended − precomputed affine → completed): computes P1 + (−(x2, y2)). -/
theorem msub_formula (E : Params K)
    {X1 Y1 Z1 T1 x2 y2 yPlusX yMinusX xy2d A B C D cX cY cZ cT : K}
    (hZ1 : Z1 ≠ 0) (hT1 : X1 * Y1 = Z1 * T1) (h1 : OnCurve E.d (X1 / Z1) (Y1 / Z1))
    (h2 : OnCurve E.d x2 y2)
    (hyp : yPlusX = y2 + x2) (hym : yMinusX = y2 - x2) (hxy : xy2d = 2 * E.d * x2 * y2)
    (hA : A = (Y1 - X1) * yPlusX) (hB : B = (Y1 + X1) * yMinusX)
    (hC : C = xy2d * T1) (hD : D = 2 * Z1)
    (hcX : cX = B - A) (hcY : cY = B + A) (hcZ : cZ = D - C) (hcT : cT = D + C) :
    cZ ≠ 0 ∧ cT ≠ 0
      ∧ cX / cZ = ((⟨X1 / Z1, Y1 / Z1, h1⟩ + -⟨x2, y2, h2⟩ : Point E)).x
      ∧ cY / cT = ((⟨X1 / Z1, Y1 / Z1, h1⟩ + -⟨x2, y2, h2⟩ : Point E)).y := by
  obtain ⟨hp, hm⟩ := denom_ne_zero E h1 (neg_onCurve h2)
  have hk : 2 * Z1 ≠ 0 := mul_ne_zero E.two_ne hZ1
  have eT1 := repr_T hZ1 hT1
  have eX1 : X1 = X1 / Z1 * Z1 := repr_X hZ1
  have eY1 : Y1 = Y1 / Z1 * Z1 := repr_X hZ1
  simp only [add_x, add_y, neg_x, neg_y]
  clear h1 h2 hT1
  generalize X1 / Z1 = x1 at *
  generalize Y1 / Z1 = y1 at *
  subst hyp hym hxy hA hB hC hD hcX hcY hcZ hcT eT1 eX1 eY1
  exact completed_of_scaled hk hp hm (by ring) (by ring) (by ring) (by ring)

/-- ref10 `ge_p2_dbl` (projective → completed): computes P + P. -/
theorem dbl_formula (E : Params K) {X Y Z XX YY ZZ2 S cX cY cZ cT : K}
    (hZ : Z ≠ 0) (h : OnCurve E.d (X / Z) (Y / Z))
    (hXX : XX = X ^ 2) (hYY : YY = Y ^ 2) (hZZ2 : ZZ2 = 2 * Z ^ 2) (hS : S = (X + Y) ^ 2)
    (hcY : cY = YY + XX) (hcZ : cZ = YY - XX) (hcX : cX = S - cY) (hcT : cT = ZZ2 - cZ) :
    cZ ≠ 0 ∧ cT ≠ 0
      ∧ cX / cZ = ((⟨X / Z, Y / Z, h⟩ + ⟨X / Z, Y / Z, h⟩ : Point E)).x
      ∧ cY / cT = ((⟨X / Z, Y / Z, h⟩ + ⟨X / Z, Y / Z, h⟩ : Point E)).y := by
  obtain ⟨hp, hm⟩ := denom_ne_zero E h h
  have hk : Z ^ 2 ≠ 0 := pow_ne_zero 2 hZ
  have eX : X = X / Z * Z := repr_X hZ
  have eY : Y = Y / Z * Z := repr_X hZ
  have hc := h
  unfold OnCurve at hc
  simp only [add_x, add_y]
  clear h
  generalize X / Z = x at *
  generalize Y / Z = y at *
  subst hXX hYY hZZ2 hS hcX hcT hcY hcZ eX eY
  exact completed_of_scaled hk hp hm (by ring) (by linear_combination Z ^ 2 * hc) (by ring)
    (by linear_combination -Z ^ 2 * hc)

end Dos.Edwards

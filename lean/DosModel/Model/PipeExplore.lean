/-
C14 — executable exploration of a pipeline IR (driver side of the tie; core Lean only).

A *scenario* is a pipeline in which some goroutines are scripted stand-ins for the test
harness (feeders of the input channels, consumers of the outputs) plus one **controller**
goroutine whose steps are taken only when nothing else can move (the harness waits for
quiescence before it cancels the context / releases its feeders).  Timer alternatives
(30 min watchdog, 60 s idle timer, ...) never fire within a scenario.

`outcomes` explores every schedule and every `select` choice exhaustively and returns the set
of final observations, in the same canonical form the Go harness prints.
-/
import DosModel.Model.PipeSem
import Std.Data.HashSet

namespace Dos.Pipe

structure Scenario where
  p : Pipeline
  controller : Option Gi := none
  /-- goroutines whose survival is reported (the code under test), by index -/
  watched : List Gi := []
  /-- channels whose final closed/open state is reported -/
  observed : List Ch := []
  deriving Inhabited

def Ev.isTick : Ev → Bool
  | .act _ .tick => true
  | _ => false

def Ev.isEnv : Ev → Bool
  | .env _ => true
  | _ => false

def Ev.gor : Ev → Option Gi
  | .act g _ => some g
  | .sync g _ _ => some g
  | .exit g => some g
  | .env _ => none

/-- steps of a scenario: no environment cancellation (the controller does it), no timers;
    the controller moves only at quiescence -/
def Scenario.steps (sc : Scenario) (s : State) : List (Ev × Cfg) :=
  let all := (succs sc.p s).filter (fun x => !x.1.isTick && !x.1.isEnv)
  match sc.controller with
  | none => all
  | some c =>
    let others := all.filter (fun x => x.1.gor != some c)
    if others.isEmpty then all else others

/-- base name of a goroutine for the report: `pkg.func` of `pkg.func.closure` -/
def baseName (s : String) : String :=
  match s.splitOn "." with
  | a :: b :: _ => a ++ "." ++ b
  | _ => s

def insertSorted (x : String) : List String → List String
  | [] => [x]
  | y :: ys => if x ≤ y then x :: y :: ys else y :: insertSorted x ys

def sortStrings (l : List String) : List String := l.foldr insertSorted []

def countRuns : List String → List (String × Nat)
  | [] => []
  | x :: xs =>
    match countRuns xs with
    | (y, n) :: rest => if x == y then (y, n + 1) :: rest else (x, 1) :: (y, n) :: rest
    | [] => [(x, 1)]

/-- canonical observation of a final state: leaked goroutines of the code under test
    (grouped by function) and the state of the observed channels -/
def Scenario.observe (sc : Scenario) (s : State) : String :=
  let alive := sc.watched.filterMap fun g =>
    match s.gs[g]? with
    | some (GSt.at _) => some (baseName (sc.p.gname g))
    | _ => none
  let leaks := (countRuns (sortStrings alive)).map fun x => x.1 ++ "*" ++ toString x.2
  let chans := sc.observed.map fun c => sc.p.cname c ++ (if s.closed c then ":closed" else ":open")
  "leak=" ++ (if leaks.isEmpty then "-" else String.intercalate "," leaks) ++
  " chans=" ++ (if chans.isEmpty then "-" else String.intercalate "," chans)

def CrashKind.show (_p : Pipeline) : CrashKind → String
  | .sendClosed _ => "send-on-closed"
  | .closeClosed _ => "close-of-closed"
  | .wgNegative _ => "negative-waitgroup"

structure Explored where
  finals : List String      -- observations of the terminal states and crashes, sorted, distinct
  states : Nat
  truncated : Bool

/-- exhaustive exploration (breadth first, hashed visited set) -/
partial def Scenario.exploreFrom (sc : Scenario) (s0 : State) (limit : Nat := 2000000) : Explored :=
  let rec go (work : List State) (seen : Std.HashSet State) (outs : Std.HashSet String) (n : Nat) :
      Std.HashSet String × Nat × Bool :=
    match work with
    | [] => (outs, n, false)
    | s :: rest =>
      if n ≥ limit then (outs, n, true) else
      let st := sc.steps s
      if st.isEmpty then go rest seen (outs.insert (sc.observe s)) (n + 1) else
      let (work', seen', outs') := st.foldl (fun (acc : List State × Std.HashSet State × Std.HashSet String) x =>
        match x.2 with
        | .run s' => if acc.2.1.contains s' then acc else (s' :: acc.1, acc.2.1.insert s', acc.2.2)
        | .crash k g _ => (acc.1, acc.2.1, acc.2.2.insert ("crash=" ++ k.show sc.p ++ "@" ++ baseName (sc.p.gname g))))
        (rest, seen, outs)
      go work' seen' outs' (n + 1)
  let (outs, n, tr) := go [s0] (Std.HashSet.emptyWithCapacity 1024 |>.insert s0) {} 0
  { finals := sortStrings outs.toList, states := n, truncated := tr }

def Scenario.explore (sc : Scenario) : Explored := sc.exploreFrom (init sc.p)

def Scenario.outcomes (sc : Scenario) : String :=
  let e := sc.explore
  (if e.truncated then "TRUNCATED " else "") ++ String.intercalate " | " e.finals

/-! ### building scenarios: scripted harness goroutines -/

/-- feeder of channel `c`: `prog` is a string over `s` (send one value) and `c` (close);
    a pending send is abandoned when the release context `rel` is done; a feeder whose program
    contains no `c` leaves the channel open -/
def feederNodes (c : Ch) (rel : Nat) (prog : List Char) : List Node :=
  let sends := (prog.filter (· == 's')).length
  let closes := prog.contains 'c'
  -- nodes 0..sends-1 : sends; node `sends` : close or wait for release; last : exit
  let tail : Pc := sends
  let sendNodes := (List.range sends).map fun i => Node.sel [.send c (i + 1), .ctx rel tail]
  if closes then sendNodes ++ [Node.close c (sends + 1), Node.exit]
  else sendNodes ++ [Node.sel [.ctx rel (sends + 1)], Node.exit]

/-- consumer of channel `c`: `all` reads until closed, `ctx` until closed or context 0 is done,
    `n<k>` reads k values; `none` is no goroutine -/
def consumerNodes (c : Ch) (mode : String) : Option (List Node) :=
  if mode == "all" then some [Node.sel [.recv c 0 1], Node.exit]
  else if mode == "ctx" then some [Node.sel [.recv c 0 1, .ctx 0 1], Node.exit]
  else if mode.startsWith "n" then
    match (mode.drop 1).toNat? with
    | some k => some ((List.range k).map (fun i => Node.sel [.recv c (i + 1) k]) ++ [Node.exit])
    | none => none
  else none

/-- controller: cancels the listed contexts one after the other, each at quiescence -/
def controllerNodes (ctxs : List Nat) : List Node :=
  (ctxs.zipIdx.map fun x => Node.cancel x.1 (x.2 + 1)) ++ [Node.exit]

def Alt.shift (k : Nat) : Alt → Alt
  | .recv c a b => .recv c (a + k) (b + k)
  | .send c n => .send c (n + k)
  | .ctx x n => .ctx x (n + k)
  | .tick n => .tick (n + k)
  | .dflt n => .dflt (n + k)

/-- the same node with every successor moved by `k` -/
def Node.shift (k : Nat) : Node → Node
  | .sel alts => .sel (alts.map (Alt.shift k))
  | .close c n => .close c (n + k)
  | .branch ns => .branch (ns.map (· + k))
  | .wgDone w n => .wgDone w (n + k)
  | .wgWait w n => .wgWait w (n + k)
  | .spawn g n => .spawn g (n + k)
  | .cancel x n => .cancel x (n + k)
  | .exit => .exit

def mkG (name : String) (nodes : List Node) (daemon : Bool := false) : Goroutine :=
  { name := name, nodes := nodes, sites := [], static := true, daemon := daemon }

/-- index of the `k`-th channel called `name` -/
def Pipeline.chanByName (p : Pipeline) (name : String) (k : Nat := 0) : Option Ch :=
  ((p.chans.zipIdx.filter (fun x => x.1.name == name)).map (·.2))[k]?

/-- goroutines of function `pre` (all its closures); `pre#k` selects the k-th goroutine called exactly `pre` -/
def Pipeline.gsByPrefix (p : Pipeline) (pre : String) : List Gi :=
  match pre.splitOn "#" with
  | [n, k] =>
    match ((p.gs.zipIdx.filter (fun x => x.1.name == n)).map (·.2))[k.toNat?.getD 0]? with
    | some g => [g]
    | none => []
  | _ => (p.gs.zipIdx.filter (fun x => x.1.name == pre || x.1.name.startsWith (pre ++ "."))).map (·.2)

/-- keep the goroutines in `keep` as they are; every other goroutine is replaced by a stub that
    is never started (indices stay valid), the harness goroutines are appended -/
def Pipeline.surgery (p : Pipeline) (keep : List Gi) (extra : List Goroutine) (nctx : Nat) : Pipeline :=
  { p with
    gs := (p.gs.zipIdx.map fun x => if keep.contains x.2 then x.1
            else { x.1 with nodes := [Node.exit], sites := [], conds := [], static := false }) ++ extra,
    nctx := nctx, rank := [] }

end Dos.Pipe

// Package p2pflow extracts the structural facts of the p2p request path that
// the hand-written model Model/Dispatch.lean relies on (C17):
// where dispatch registers / removes table entries and counts the nonce, which
// requests packPipe completes, and whether handleCallReq bounds the handshake.
package p2pflow

import (
	"bytes"
	"fmt"
	"go/ast"
	"go/printer"
	"go/token"
	"path/filepath"
	"strings"

	"verifharness/extract/ex"
)

func init() { ex.Register(&ex.Extractor{Name: "P2PFlow", Run: run}) }

func txt(n ast.Node) string {
	var b bytes.Buffer
	printer.Fprint(&b, token.NewFileSet(), n)
	return strings.Join(strings.Fields(b.String()), " ")
}

// walk calls f for every node with the stack of its ancestors (outermost first).
func walk(root ast.Node, f func(n ast.Node, stack []ast.Node)) {
	var stack []ast.Node
	ast.Inspect(root, func(n ast.Node) bool {
		if n == nil {
			stack = stack[:len(stack)-1]
			return true
		}
		f(n, stack)
		stack = append(stack, n)
		return true
	})
}

// guardedBy reports whether some enclosing `if` has exactly the condition cond and n is in its body (not else).
func guardedBy(n ast.Node, stack []ast.Node, cond string) bool {
	for i, a := range stack {
		is, ok := a.(*ast.IfStmt)
		if !ok || txt(is.Cond) != cond {
			continue
		}
		if i+1 < len(stack) && stack[i+1] == ast.Node(is.Body) {
			return true
		}
	}
	return false
}

func lb(b bool) string {
	if b {
		return "true"
	}
	return "false"
}

func run(repo string) (string, error) {
	_, cf, err := ex.Parse(filepath.Join(repo, "p2p", "client.go"))
	if err != nil {
		return "", err
	}
	_, sf, err := ex.Parse(filepath.Join(repo, "p2p", "server.go"))
	if err != nil {
		return "", err
	}
	disp := ex.FuncDecl(cf, "client", "dispatch")
	pack := ex.FuncDecl(cf, "client", "packPipe")
	hcr := ex.FuncDecl(sf, "server", "handleCallReq")
	if disp == nil || pack == nil || hcr == nil {
		return "", fmt.Errorf("dispatch / packPipe / handleCallReq not found")
	}

	// dispatch: registrations, nonce counting, deletion
	regs, regsGuarded, setNonce, inc, del, delGuarded, lookup := 0, 0, false, false, 0, 0, false
	walk(disp, func(n ast.Node, st []ast.Node) {
		switch x := n.(type) {
		case *ast.AssignStmt:
			if len(x.Lhs) == 1 {
				if ix, ok := x.Lhs[0].(*ast.IndexExpr); ok && txt(ix.X) == "requests" {
					regs++
					if txt(x) == "requests[nonce] = &req" && guardedBy(n, st, "req.rType != replyReq") {
						regsGuarded++
					}
				}
				if txt(x) == "req.nonce = nonce" && guardedBy(n, st, "req.rType != replyReq") {
					setNonce = true
				}
				if txt(x) == "p2pRequest := requests[msg.RequestNonce]" {
					lookup = true
				}
			}
		case *ast.IncDecStmt:
			if txt(x) == "nonce++" && guardedBy(n, st, "req.rType != replyReq") {
				inc = true
			}
		case *ast.CallExpr:
			if id, ok := x.Fun.(*ast.Ident); ok && id.Name == "delete" && len(x.Args) == 2 && txt(x.Args[0]) == "requests" {
				del++
				if txt(x.Args[1]) == "msg.RequestNonce" && guardedBy(n, st, "p2pRequest != nil") {
					delGuarded++
				}
			}
		}
	})
	// no other write to the counter
	otherNonceWrites := 0
	walk(disp, func(n ast.Node, st []ast.Node) {
		if a, ok := n.(*ast.AssignStmt); ok {
			for _, l := range a.Lhs {
				// the declaration `nonce := c.nonceBase` (the connection's starting value) is not a write to the running counter
				if txt(l) == "nonce" && !(a.Tok == token.DEFINE && txt(a) == "nonce := c.nonceBase") {
					otherNonceWrites++
				}
			}
		}
	})

	// packPipe: replyResult only under `req.rType == replyReq`
	pcalls, pguarded := 0, 0
	walk(pack, func(n ast.Node, st []ast.Node) {
		if c, ok := n.(*ast.CallExpr); ok && strings.HasSuffix(txt(c.Fun), ".replyResult") {
			pcalls++
			if guardedBy(n, st, "req.rType == replyReq") {
				pguarded++
			}
		}
	})

	// handleCallReq: a deadline is put on the connection before the handshake starts
	var dlPos, hsPos token.Pos
	walk(hcr, func(n ast.Node, st []ast.Node) {
		if c, ok := n.(*ast.CallExpr); ok {
			f := txt(c.Fun)
			if (strings.HasSuffix(f, ".SetDeadline") || strings.HasSuffix(f, ".SetReadDeadline")) && dlPos == 0 {
				dlPos = c.Pos()
			}
			if strings.HasSuffix(f, ".handShake") && hsPos == 0 {
				hsPos = c.Pos()
			}
		}
	})
	if hsPos == 0 {
		return "", fmt.Errorf("handleCallReq no longer calls handShake")
	}
	// handleCallReq: every dial is bounded. A dial is any call of a function or method whose name
	// starts with `Dial`; it is bounded when it is net.DialTimeout(…) or a method of a composite
	// literal `net.Dialer{…}` / `&net.Dialer{…}` that sets Timeout (or Deadline) to something that
	// is not the literal 0. A bare net.Dial / net.DialTCP, or a Dialer held in a variable, is not.
	dials, dialsBounded := 0, 0
	walk(hcr, func(n ast.Node, st []ast.Node) {
		c, ok := n.(*ast.CallExpr)
		if !ok {
			return
		}
		sel, ok := c.Fun.(*ast.SelectorExpr)
		if !ok || !strings.HasPrefix(sel.Sel.Name, "Dial") {
			return
		}
		dials++
		if id, ok := sel.X.(*ast.Ident); ok {
			if id.Name == "net" && sel.Sel.Name == "DialTimeout" && len(c.Args) == 3 && txt(c.Args[2]) != "0" {
				dialsBounded++
			}
			return
		}
		x := sel.X
		for {
			if p, ok := x.(*ast.ParenExpr); ok {
				x = p.X
			} else if u, ok := x.(*ast.UnaryExpr); ok && u.Op == token.AND {
				x = u.X
			} else {
				break
			}
		}
		cl, ok := x.(*ast.CompositeLit)
		if !ok || cl.Type == nil || txt(cl.Type) != "net.Dialer" {
			return
		}
		for _, e := range cl.Elts {
			if kv, ok := e.(*ast.KeyValueExpr); ok {
				if k := txt(kv.Key); (k == "Timeout" || k == "Deadline") && txt(kv.Value) != "0" {
					dialsBounded++
					return
				}
			}
		}
	})

	// utils.MergeErrors (what handShake returns): every forwarding goroutine releases the
	// WaitGroup on every way out, i.e. its body starts with `defer wg.Done()`.
	_, uf, err := ex.Parse(filepath.Join(repo, "utils", "utils.go"))
	if err != nil {
		return "", err
	}
	me := ex.FuncDecl(uf, "", "MergeErrors")
	if me == nil {
		return "", fmt.Errorf("utils.MergeErrors not found")
	}
	releases, sawOutput := false, false
	walk(me, func(n ast.Node, st []ast.Node) {
		a, ok := n.(*ast.AssignStmt)
		if !ok || len(a.Lhs) != 1 || txt(a.Lhs[0]) != "output" || len(a.Rhs) != 1 {
			return
		}
		fl, ok := a.Rhs[0].(*ast.FuncLit)
		if !ok {
			return
		}
		sawOutput = true
		if len(fl.Body.List) > 0 && txt(fl.Body.List[0]) == "defer wg.Done()" {
			releases = true
		}
	})
	usesMerge := false
	walk(ex.FuncDecl(cf, "client", "handShake"), func(n ast.Node, st []ast.Node) {
		if c, ok := n.(*ast.CallExpr); ok && txt(c.Fun) == "utils.MergeErrors" {
			usesMerge = true
		}
	})
	if !sawOutput || !usesMerge {
		return "", fmt.Errorf("handShake / utils.MergeErrors no longer have the expected shape")
	}

	// ---- C16: the checks on the receiving pipeline
	dec := ex.FuncDecl(cf, "", "decodeBytes")
	dpipe := ex.FuncDecl(cf, "client", "decodePipe")
	cpipe := ex.FuncDecl(cf, "client", "decryptPipe")
	if dec == nil || dpipe == nil || cpipe == nil {
		return "", fmt.Errorf("decodeBytes / decodePipe / decryptPipe not found")
	}
	// an `if` whose init or condition contains `call` and whose body leaves (return / continue)
	guardLeaves := func(fn *ast.FuncDecl, call string, needReport bool) bool {
		found := false
		walk(fn, func(n ast.Node, st []ast.Node) {
			is, ok := n.(*ast.IfStmt)
			if !ok {
				return
			}
			head := txt(is.Cond)
			if is.Init != nil {
				head = txt(is.Init) + "; " + head
			}
			if !strings.Contains(head, call) || !strings.Contains(head, "err != nil") {
				return
			}
			leaves, reports := false, false
			for _, b := range is.Body.List {
				switch x := b.(type) {
				case *ast.ReturnStmt:
					leaves = true
				case *ast.BranchStmt:
					if x.Tok == token.CONTINUE {
						leaves = true
					}
				case *ast.ExprStmt:
					if strings.HasPrefix(txt(x), "c.reportError(") {
						reports = true
					}
				}
			}
			if leaves && (reports || !needReport) {
				found = true
			}
		})
		return found
	}
	checksAny := false
	walk(dec, func(n ast.Node, st []ast.Node) {
		if is, ok := n.(*ast.IfStmt); ok && txt(is.Cond) == "pa.GetAnything() == nil" {
			for _, b := range is.Body.List {
				if _, ok := b.(*ast.ReturnStmt); ok {
					checksAny = true
				}
			}
		}
	})
	// the nil check must come before the first use of pa.GetAnything().Value
	if checksAny {
		var chk, use token.Pos
		walk(dec, func(n ast.Node, st []ast.Node) {
			if is, ok := n.(*ast.IfStmt); ok && txt(is.Cond) == "pa.GetAnything() == nil" && chk == 0 {
				chk = is.Pos()
			}
			if se, ok := n.(*ast.SelectorExpr); ok && txt(se) == "pa.GetAnything().Value" && use == 0 {
				use = se.Pos()
			}
		})
		checksAny = use == 0 || chk < use
	}
	decVerifies := guardLeaves(dec, "veifyfn(pa.GetAnything().Value, pa.GetSignature())", false)
	pipePassesVerify := false
	walk(dpipe, func(n ast.Node, st []ast.Node) {
		if c, ok := n.(*ast.CallExpr); ok && txt(c) == "decodeBytes(bytes, c.verifyFn)" {
			pipePassesVerify = true
		}
	})
	pipeDecodeErr := false
	walk(dpipe, func(n ast.Node, st []ast.Node) { // `pa, ptr, err := decodeBytes(…)` followed by `if err != nil { report; continue }`
		bs, ok := n.(*ast.BlockStmt)
		if !ok {
			return
		}
		for i, stt := range bs.List {
			if a, ok := stt.(*ast.AssignStmt); ok && strings.Contains(txt(a), "decodeBytes(bytes, c.verifyFn)") && i+1 < len(bs.List) {
				if is, ok := bs.List[i+1].(*ast.IfStmt); ok && txt(is.Cond) == "err != nil" {
					rep, cont := false, false
					for _, b := range is.Body.List {
						if strings.HasPrefix(txt(b), "c.reportError(") {
							rep = true
						}
						if br, ok := b.(*ast.BranchStmt); ok && br.Tok == token.CONTINUE {
							cont = true
						}
					}
					pipeDecodeErr = rep && cont
				}
			}
		}
	})
	pipeVerifies := guardLeaves(dpipe, "bls.Verify(c.suite, c.remotePubKey, pa.GetAnything().Value, pa.GetSignature())", true)
	openChecked := guardLeaves(cpipe, "aesgcm.Open(nil, c.dhNonce, text, nil)", true)
	verifyFnUsesRemoteKey := false
	if vf := ex.FuncDecl(cf, "client", "verifyFn"); vf != nil {
		walk(vf, func(n ast.Node, st []ast.Node) {
			if c, ok := n.(*ast.CallExpr); ok && txt(c) == "bls.Verify(c.suite, c.remotePubKey, msg, sig)" {
				verifyFnUsesRemoteKey = true
			}
		})
	}

	// client.run leaves a reader on errc behind (so a later reportError cannot block a pipeline stage)
	runDrains := false
	if rf := ex.FuncDecl(cf, "client", "run"); rf != nil {
		walk(rf, func(n ast.Node, st []ast.Node) {
			if d, ok := n.(*ast.DeferStmt); ok {
				t := txt(d)
				if strings.Contains(t, "go func()") && strings.Contains(t, "<-c.errc") && strings.Contains(t, "<-c.ctx.Done()") && strings.Contains(t, "for {") {
					runDrains = true
				}
			}
		})
	}
	// every connection has its own signing key pair: newClient draws it, signFn signs with it, sendID presents it
	perConnKey := false
	if nc := ex.FuncDecl(cf, "", "newClient"); nc != nil {
		draw, pub := false, false
		walk(nc, func(n ast.Node, st []ast.Node) {
			if a, ok := n.(*ast.AssignStmt); ok {
				switch txt(a) {
				case "c.localSecKey = c.suite.Scalar().Pick(c.suite.RandomStream())":
					draw = true
				case "c.localPubKey = c.suite.Point().Mul(c.localSecKey, nil)":
					pub = true
				}
			}
		})
		signs, presents := false, false
		if sf := ex.FuncDecl(cf, "client", "signFn"); sf != nil {
			signs = strings.Contains(txt(sf.Body), "bls.Sign(c.suite, c.localSecKey, msg)")
		}
		if sid := ex.FuncDecl(cf, "client", "sendID"); sid != nil {
			presents = strings.Contains(txt(sid.Body), "c.localPubKey.MarshalBinary()")
		}
		perConnKey = draw && pub && signs && presents
	}

	s := ex.Header("P2PFlow", "p2p/client.go, p2p/server.go, utils/utils.go")
	s += "namespace Dos.Gen\n"
	s += "/-- every write `requests[…] = …` in dispatch is `requests[nonce] = &req` under `if req.rType != replyReq` -/\n"
	s += fmt.Sprintf("def dispatchRegistersOnlyNonReply : Bool := %s\n", lb(regs == 1 && regsGuarded == 1 && setNonce))
	s += "/-- the reply branch looks the entry up by msg.RequestNonce and deletes it under `if p2pRequest != nil` -/\n"
	s += fmt.Sprintf("def dispatchDeletesOnReply : Bool := %s\n", lb(lookup && del == 1 && delGuarded == 1))
	s += "/-- `nonce++` follows the registration and nothing else assigns the counter -/\n"
	s += fmt.Sprintf("def dispatchNonceIncrements : Bool := %s\n", lb(inc && otherNonceWrites == 0))
	s += "/-- every replyResult call in packPipe is under `if req.rType == replyReq` -/\n"
	s += fmt.Sprintf("def packCompletesOnlyReply : Bool := %s\n", lb(pcalls >= 1 && pcalls == pguarded))
	s += "/-- handleCallReq puts a deadline on the connection before it starts the handshake -/\n"
	s += fmt.Sprintf("def handshakeDeadline : Bool := %s\n", lb(dlPos != 0 && dlPos < hsPos))
	s += "/-- handleCallReq dials, and every dial in it is bounded: net.DialTimeout or a method of a `net.Dialer{…}` literal that sets Timeout/Deadline (not a bare net.Dial) -/\n"
	s += fmt.Sprintf("def dialBounded : Bool := %s\n", lb(dials >= 1 && dials == dialsBounded))
	s += "/-- the merge of the handshake's error channels (utils.MergeErrors) releases its WaitGroup on every exit of a forwarder -/\n"
	s += fmt.Sprintf("def mergeErrorsReleases : Bool := %s\n", lb(releases))
	s += "/-- decodeBytes returns an error for a Package without Anything before it dereferences it -/\n"
	s += fmt.Sprintf("def decodeChecksAnything : Bool := %s\n", lb(checksAny))
	s += "/-- decryptPipe: a failing aesgcm.Open is reported and the frame dropped (`continue`) -/\n"
	s += fmt.Sprintf("def decryptDropsOnOpenError : Bool := %s\n", lb(openChecked))
	s += "/-- decodePipe calls decodeBytes with c.verifyFn (BLS under the handshake key) and drops the frame on its error; decodeBytes returns on a verify error -/\n"
	s += fmt.Sprintf("def decodeVerifiesFirst : Bool := %s\n", lb(decVerifies && pipePassesVerify && pipeDecodeErr && verifyFnUsesRemoteKey))
	s += "/-- decodePipe verifies the payload signature under c.remotePubKey again and drops the frame on failure -/\n"
	s += fmt.Sprintf("def decodePipeVerifiesAgain : Bool := %s\n", lb(pipeVerifies))
	s += "/-- client.run defers a goroutine that keeps receiving from c.errc until c.ctx ends -/\n"
	s += fmt.Sprintf("def runKeepsDrainingErrors : Bool := %s\n", lb(runDrains))
	s += "/-- newClient draws a fresh signing key pair per connection; signFn signs with it, sendID presents its public half -/\n"
	s += fmt.Sprintf("def signingKeyPerConnection : Bool := %s\n", lb(perConnKey))
	ct, err := connTableFacts(cf, sf)
	if err != nil {
		return "", err
	}
	s += ct
	st, err := subTableFacts(repo, sf)
	if err != nil {
		return "", err
	}
	s += st
	rs, err := recvSkeletonFacts(cf)
	if err != nil {
		return "", err
	}
	s += rs
	s += "end Dos.Gen\n"
	return s, nil
}

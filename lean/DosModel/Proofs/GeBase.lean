/-
C20 (round 4) — the base point.  `basePt` is the affine point (x, 4/5) of RFC 8032 (the coordinates the independent
model `Dos.Ed.base` uses); it is on the curve, and the limb constant `baseext` of const.go (regenerated) is a good
extended representation of it (its Z is not 1).
-/
import DosModel.Proofs.GeSpec3

set_option exponentiation.threshold 600

namespace Dos.Ge
open Dos Dos.Ed25519 Dos.FeProg Dos.FeOps Dos.GeProg Dos.Ed25519Prime Dos.Edwards Dos.Gen.Ed25519Ge

def baseX : Nat := 15112221349535400772501151409588531511454012693041857206046113283949847762202
def baseY : Nat := 46316835694926478169428394003475163141307993866256225615783033603165251855960

theorem natCast_eq_of_mod {a b : Nat} (h : a % Dos.Ed.p = b % Dos.Ed.p) : ((a : ℕ) : F) = ((b : ℕ) : F) :=
  (ZMod.natCast_eq_natCast_iff a b _).2 h

theorem base_onCurve : OnCurve E25519.d ((baseX : ℕ) : F) ((baseY : ℕ) : F) := by
  unfold OnCurve
  have h : ((baseY ^ 2 : ℕ) : F) = ((baseX ^ 2 + 1 + Dos.Ed.d * baseX ^ 2 * baseY ^ 2 : ℕ) : F) :=
    natCast_eq_of_mod (by decide +kernel)
  push_cast at h
  show -((baseX : ℕ) : F) ^ 2 + ((baseY : ℕ) : F) ^ 2 = 1 + ((Dos.Ed.d : ℕ) : F) * ((baseX : ℕ) : F) ^ 2 * ((baseY : ℕ) : F) ^ 2
  linear_combination h

/-- the base point B -/
def basePt : Pt := ⟨((baseX : ℕ) : F), ((baseY : ℕ) : F), base_onCurve⟩

theorem val_eq_nat {l : L10} {n : ℕ} (h : (feVal l - (n : Int)) % pI = 0) : val l = ((n : ℕ) : F) :=
  val_of_modP h

/-- values of the four limb vectors of `baseext` modulo p -/
def bX : Nat := (feVal baseExt.X % pI).toNat
def bY : Nat := (feVal baseExt.Y % pI).toNat
def bZ : Nat := (feVal baseExt.Z % pI).toNat
def bT : Nat := (feVal baseExt.T % pI).toNat

theorem baseExt_good : GoodExt baseExt basePt := by
  have vX : val baseExt.X = ((bX : ℕ) : F) := val_eq_nat (by decide +kernel)
  have vY : val baseExt.Y = ((bY : ℕ) : F) := val_eq_nat (by decide +kernel)
  have vZ : val baseExt.Z = ((bZ : ℕ) : F) := val_eq_nat (by decide +kernel)
  have vT : val baseExt.T = ((bT : ℕ) : F) := val_eq_nat (by decide +kernel)
  have hz : ((bZ : ℕ) : F) ≠ 0 := by
    intro h
    have := (ZMod.natCast_eq_zero_iff bZ _).1 h
    revert this
    decide +kernel
  have hx : ((bX : ℕ) : F) = ((baseX : ℕ) : F) * ((bZ : ℕ) : F) := by
    rw [← Nat.cast_mul]; exact natCast_eq_of_mod (by decide +kernel)
  have hy : ((bY : ℕ) : F) = ((baseY : ℕ) : F) * ((bZ : ℕ) : F) := by
    rw [← Nat.cast_mul]; exact natCast_eq_of_mod (by decide +kernel)
  have hxy : ((bX : ℕ) : F) * ((bY : ℕ) : F) = ((bZ : ℕ) : F) * ((bT : ℕ) : F) := by
    rw [← Nat.cast_mul, ← Nat.cast_mul]; exact natCast_eq_of_mod (by decide +kernel)
  exact
    { bX := by decide, bY := by decide, bZ := by decide, bT := by decide
      z_ne := by rw [vZ]; exact hz
      xy := by rw [vX, vY, vZ, vT]; exact hxy
      hx := by rw [vX, vZ, hx]; exact mul_div_cancel_right₀ _ hz
      hy := by rw [vY, vZ, hy]; exact mul_div_cancel_right₀ _ hz }

theorem basePt_ne_zero : basePt ≠ 0 := by
  intro h
  have := congrArg Point.x h
  have h0 : ((baseX : ℕ) : F) = 0 := this
  have := (ZMod.natCast_eq_zero_iff baseX _).1 h0
  revert this
  decide +kernel

end Dos.Ge

/-
Helper lemmas for C07: big-endian values of byte strings, `big.Int.Bytes()`
(`natBytes`), `padOrTrim`.
-/
import DosModel.Model.Content
import Mathlib.Tactic.Ring

namespace Dos.Content
open Dos

private abbrev f : Nat → UInt8 → Nat := fun acc b => acc * 256 + b.toNat

theorem foldl_shift (l : Bytes) : ∀ init : Nat,
    l.foldl f init = init * 256 ^ l.length + l.foldl f 0 := by
  induction l with
  | nil => intro init; simp
  | cons b l ih =>
    intro init
    simp only [List.foldl_cons, List.length_cons]
    rw [ih (f init b), ih (f 0 b)]
    simp only [f]
    ring

theorem beNat_nil : beNat [] = 0 := rfl

theorem beNat_append (a b : Bytes) : beNat (a ++ b) = beNat a * 256 ^ b.length + beNat b := by
  unfold beNat
  rw [List.foldl_append]
  exact foldl_shift b _

theorem beNat_cons (x : UInt8) (bs : Bytes) : beNat (x :: bs) = x.toNat * 256 ^ bs.length + beNat bs := by
  have := beNat_append [x] bs
  simpa [beNat] using this

theorem beNat_lt (bs : Bytes) : beNat bs < 256 ^ bs.length := by
  induction bs with
  | nil => simp [beNat]
  | cons x bs ih =>
    rw [beNat_cons, List.length_cons, Nat.pow_succ]
    have hx : x.toNat < 256 := x.toNat_lt
    have : x.toNat * 256 ^ bs.length + 256 ^ bs.length ≤ 256 ^ bs.length * 256 := by
      have : (x.toNat + 1) * 256 ^ bs.length ≤ 256 * 256 ^ bs.length := Nat.mul_le_mul_right _ (by omega)
      calc x.toNat * 256 ^ bs.length + 256 ^ bs.length = (x.toNat + 1) * 256 ^ bs.length := by ring
        _ ≤ 256 * 256 ^ bs.length := this
        _ = 256 ^ bs.length * 256 := by ring
    omega

theorem beNat_replicate_zero (k : Nat) (bs : Bytes) : beNat (List.replicate k 0 ++ bs) = beNat bs := by
  induction k with
  | zero => simp
  | succ k ih => rw [List.replicate_succ, List.cons_append, beNat_cons]; simp [ih]

theorem beNat_drop (bs : Bytes) (k : Nat) : beNat (bs.drop k) = beNat bs % 256 ^ (bs.length - k) := by
  have h := beNat_append (bs.take k) (bs.drop k)
  rw [List.take_append_drop] at h
  have hl : (bs.drop k).length = bs.length - k := List.length_drop
  have hlt := beNat_lt (bs.drop k)
  rw [hl] at h hlt
  rw [h, Nat.mul_add_mod_self_right, Nat.mod_eq_of_lt hlt]

/-- byte strings of equal length with equal big-endian value are equal -/
theorem beNat_inj : ∀ (a b : Bytes), a.length = b.length → beNat a = beNat b → a = b := by
  intro a
  induction a with
  | nil => intro b hl _; cases b with
    | nil => rfl
    | cons y b => simp at hl
  | cons x a ih =>
    intro b hl hv
    cases b with
    | nil => simp at hl
    | cons y b =>
      simp only [List.length_cons, Nat.add_right_cancel_iff] at hl
      rw [beNat_cons, beNat_cons, hl] at hv
      have ha := beNat_lt a
      have hb := beNat_lt b
      rw [hl] at ha
      have hpos : 0 < 256 ^ b.length := Nat.pow_pos (by decide)
      have hx : x.toNat = y.toNat := by
        have h1 : (x.toNat * 256 ^ b.length + beNat a) / 256 ^ b.length = x.toNat := by
          rw [Nat.add_comm, Nat.add_mul_div_right _ _ hpos, Nat.div_eq_of_lt ha]; simp
        have h2 : (y.toNat * 256 ^ b.length + beNat b) / 256 ^ b.length = y.toNat := by
          rw [Nat.add_comm, Nat.add_mul_div_right _ _ hpos, Nat.div_eq_of_lt hb]; simp
        rw [← h1, ← h2, hv]
      have hab : beNat a = beNat b := by rw [hx] at hv; omega
      have : x = y := UInt8.toNat_inj.mp hx
      rw [this, ih b hl hab]

/-! ### `natBE` (exactly k bytes) -/

theorem natBE_length (k n : Nat) : (natBE k n).length = k := by
  induction k with
  | zero => rfl
  | succ k ih => simp [natBE, ih]

theorem beNat_natBE (k n : Nat) : beNat (natBE k n) = n % 256 ^ k := by
  induction k with
  | zero => simp [natBE, beNat, Nat.mod_one]
  | succ k ih =>
    rw [natBE, beNat_cons, natBE_length, ih]
    simp only [UInt8.toNat_ofNat']
    have : n / 256 ^ k % 256 % 2 ^ 8 = n / 256 ^ k % 256 := Nat.mod_eq_of_lt (by omega)
    rw [this, Nat.pow_succ]
    -- n % (256^k*256) = (n / 256^k % 256) * 256^k + n % 256^k
    rw [Nat.mod_mul, Nat.add_comm, Nat.mul_comm]

/-! ### `natBytes` = `big.Int.Bytes()` -/

theorem beNat_natBytesAux : ∀ (fuel n : Nat) (acc : Bytes), n < fuel →
    beNat (natBytesAux fuel n acc) = n * 256 ^ acc.length + beNat acc := by
  intro fuel
  induction fuel with
  | zero => intro n acc h; omega
  | succ fuel ih =>
    intro n acc h
    by_cases hn : n = 0
    · simp [natBytesAux, hn]
    · simp only [natBytesAux, hn, if_false]
      rw [ih (n / 256) _ (by have := Nat.div_lt_self (Nat.pos_of_ne_zero hn) (by decide : 1 < 256); omega)]
      rw [beNat_cons, List.length_cons, Nat.pow_succ]
      simp only [UInt8.toNat_ofNat']
      have h8 : n % 256 % 2 ^ 8 = n % 256 := Nat.mod_eq_of_lt (by omega)
      rw [h8]
      have hdm : n = 256 * (n / 256) + n % 256 := (Nat.div_add_mod n 256).symm
      generalize 256 ^ acc.length = P
      generalize hq : n / 256 = q at hdm
      generalize hr : n % 256 = r at hdm
      rw [hdm]; ring

theorem beNat_natBytes (n : Nat) : beNat (natBytes n) = n := by
  unfold natBytes
  rw [beNat_natBytesAux (n + 1) n [] (by omega)]
  simp [beNat]

theorem natBytesAux_length : ∀ (fuel n : Nat) (acc : Bytes) (k : Nat), n < fuel → n < 256 ^ k →
    (natBytesAux fuel n acc).length ≤ k + acc.length := by
  intro fuel
  induction fuel with
  | zero => intro n acc k h; omega
  | succ fuel ih =>
    intro n acc k h hk
    by_cases hn : n = 0
    · simp [natBytesAux, hn]
    · simp only [natBytesAux, hn, if_false]
      cases k with
      | zero => simp at hk; omega
      | succ k =>
        have hdiv : n / 256 < 256 ^ k := by
          rw [Nat.pow_succ] at hk
          exact Nat.div_lt_of_lt_mul (by rw [Nat.mul_comm]; exact hk)
        have := ih (n / 256) (UInt8.ofNat (n % 256) :: acc) k
          (by have := Nat.div_lt_self (Nat.pos_of_ne_zero hn) (by decide : 1 < 256); omega) hdiv
        simp only [List.length_cons] at this
        omega

theorem natBytes_length_le (n k : Nat) (h : n < 256 ^ k) : (natBytes n).length ≤ k := by
  have := natBytesAux_length (n + 1) n [] k (by omega) h
  simpa [natBytes] using this

/-! ### `padOrTrim` -/

theorem padOrTrim_length (bb : Bytes) (k : Nat) : (padOrTrim bb k).length = k := by
  unfold padOrTrim
  by_cases h1 : bb.length = k
  · simp [h1]
  · by_cases h2 : bb.length > k
    · simp only [h1, h2, if_false, if_true, List.length_drop]; omega
    · simp only [h1, h2, if_false, List.length_append, List.length_replicate]; omega

/-- the value is kept modulo 2^(8k): zero padding on the left, or the LOW k bytes -/
theorem padOrTrim_value (bb : Bytes) (k : Nat) : beNat (padOrTrim bb k) = beNat bb % 256 ^ k := by
  unfold padOrTrim
  by_cases h1 : bb.length = k
  · simp only [h1, if_true]
    have := beNat_lt bb
    rw [h1] at this
    exact (Nat.mod_eq_of_lt this).symm
  · by_cases h2 : bb.length > k
    · simp only [h1, h2, if_false, if_true]
      rw [beNat_drop]
      congr 2; omega
    · simp only [h1, h2, if_false]
      rw [beNat_replicate_zero]
      have hlt := beNat_lt bb
      have : 256 ^ bb.length ≤ 256 ^ k := Nat.pow_le_pow_right (by decide) (by omega)
      exact (Nat.mod_eq_of_lt (by omega)).symm

/-- canonical form: the padded/trimmed bytes ARE the k-byte big-endian encoding of the value mod 2^(8k) -/
theorem padOrTrim_eq_natBE (bb : Bytes) (k : Nat) : padOrTrim bb k = natBE k (beNat bb) := by
  apply beNat_inj
  · rw [padOrTrim_length, natBE_length]
  · rw [padOrTrim_value, beNat_natBE]

end Dos.Content

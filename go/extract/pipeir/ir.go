package pipeir

import (
	"fmt"
	"sort"
	"strings"
)

// ---- IR under construction ----------------------------------------------------------

type alt struct {
	kind   string // recv send ctx tick dflt
	ch, k  int
	n1, n2 *int // recv: n1 = value, n2 = closed; others: n1
}

type node struct {
	kind string // sel close branch wgDone wgWait spawn cancel exit
	alts []*alt
	arg  int    // channel / wg / goroutine / ctx
	succ []*int // branch: all; close wgDone wgWait spawn cancel: one
	site string
	flat []int
	lab  []string // branch: the decision each successor stands for (path of decisions after flattening)
	flab []string
}

func slot() *int { v := -1; return &v }

type gbuild struct {
	name    string
	static  bool
	daemon  bool
	nodes   []*node
	pending []*int // dangling successor slots, patched by the next emitted node
	atEntry bool   // nothing emitted yet: the next node is the entry
	effects bool   // a non-branch node has been emitted (goroutine left its constructor prefix)
	idx     int
}

func (g *gbuild) reachable() bool { return g.atEntry || len(g.pending) > 0 }

// emit appends n, pointing every dangling slot at it; the caller sets g.pending afterwards.
func (g *gbuild) emit(n *node) int {
	pc := len(g.nodes)
	g.nodes = append(g.nodes, n)
	for _, s := range g.pending {
		*s = pc
	}
	g.pending = nil
	g.atEntry = false
	if n.kind != "branch" {
		g.effects = true
	}
	return pc
}

type chanDecl struct {
	name string
	cap  int
	env  bool // created by the template: a field of a long-lived object or an environment channel
}

type wgDecl struct {
	name string
	init int
}

type pipeline struct {
	name       string
	chans      []*chanDecl
	wgs        []*wgDecl
	nctx       int
	gs         []*gbuild
	warns      []string
	inTemplate bool     // channels created now belong to the environment
	facts      []string // extracted facts (e.g. "ctx0 created by context.WithTimeout")
	timers     [][2]string // (goroutine, how the timer of one of its timer alternatives came about)
}

// timer records where the timer channel of a `tick` alternative comes from
func (p *pipeline) timer(g, src string) {
	if src == "" {
		src = "unknown"
	}
	for _, x := range p.timers {
		if x[0] == g && x[1] == src {
			return
		}
	}
	p.timers = append(p.timers, [2]string{g, src})
}

func (p *pipeline) newChan(name string, cap int) int {
	p.chans = append(p.chans, &chanDecl{name: name, cap: cap, env: p.inTemplate})
	return len(p.chans) - 1
}
func (p *pipeline) newWg(name string) int {
	p.wgs = append(p.wgs, &wgDecl{name, 0})
	return len(p.wgs) - 1
}
func (p *pipeline) newG(name string, static, daemon bool) *gbuild {
	g := &gbuild{name: name, static: static, daemon: daemon, atEntry: true, idx: len(p.gs)}
	p.gs = append(p.gs, g)
	return g
}
func (p *pipeline) warn(f string, a ...interface{}) {
	w := fmt.Sprintf(f, a...)
	for _, x := range p.warns {
		if x == w {
			return
		}
	}
	p.warns = append(p.warns, w)
}

// ---- compaction: remove skip nodes (single-successor branches), unreachable nodes ---

func (n *node) slots() []*int {
	var s []*int
	for _, a := range n.alts {
		s = append(s, a.n1)
		if a.kind == "recv" {
			s = append(s, a.n2)
		}
	}
	return append(s, n.succ...)
}

func (g *gbuild) compact() error {
	// every dangling slot at this point is a translator bug
	for i, n := range g.nodes {
		for _, s := range n.slots() {
			if *s < 0 || *s >= len(g.nodes) {
				return fmt.Errorf("goroutine %s: node %d (%s) has an unresolved successor", g.name, i, n.site)
			}
		}
	}
	// An internal choice followed by internal choices is one internal choice: every branch
	// node points directly at the non-branch nodes reachable through branch nodes only.
	for i, n := range g.nodes {
		if n.kind != "branch" {
			continue
		}
		seen := map[int]bool{i: true}
		var targets []int
		var labels []string
		inT := map[int]bool{}
		var dfs func(k int, path string)
		dfs = func(k int, path string) {
			for si, s := range g.nodes[k].succ {
				j := *s
				l := path
				if si < len(g.nodes[k].lab) {
					if l != "" {
						l += ";"
					}
					l += g.nodes[k].lab[si]
				}
				if g.nodes[j].kind != "branch" {
					if !inT[j] {
						inT[j] = true
						targets = append(targets, j)
						labels = append(labels, l)
					}
					continue
				}
				if !seen[j] {
					seen[j] = true
					dfs(j, l)
				}
			}
		}
		dfs(i, "")
		n.flat = targets
		n.flab = labels
	}
	for i, n := range g.nodes {
		if n.kind != "branch" {
			continue
		}
		if len(n.flat) == 0 {
			v := i // a loop without any operation: keep it as a silent self loop
			n.succ = []*int{&v}
			continue
		}
		n.succ = nil
		for _, j := range n.flat {
			v := j
			n.succ = append(n.succ, &v)
		}
		n.lab = n.flab
	}
	// bypass skip nodes
	for _, n := range g.nodes {
		for _, s := range n.slots() {
			m := g.nodes[*s]
			if m.kind == "branch" && len(m.succ) == 1 && *m.succ[0] != *s {
				*s = *m.succ[0]
			}
		}
	}
	// entry may itself be a skip node
	entry := 0
	for seen := map[int]bool{}; ; {
		n := g.nodes[entry]
		if n.kind != "branch" || len(n.succ) != 1 || *n.succ[0] == entry || seen[entry] {
			break
		}
		seen[entry] = true
		entry = *n.succ[0]
	}
	// renumber reachable nodes, entry first (DFS preorder)
	order := []int{}
	idx := map[int]int{}
	var dfs func(i int)
	dfs = func(i int) {
		if _, ok := idx[i]; ok {
			return
		}
		idx[i] = len(order)
		order = append(order, i)
		for _, s := range g.nodes[i].slots() {
			dfs(*s)
		}
	}
	dfs(entry)
	var nn []*node
	for _, i := range order {
		nn = append(nn, g.nodes[i])
	}
	for _, n := range nn {
		for _, s := range n.slots() {
			*s = idx[*s]
		}
	}
	g.nodes = nn
	return nil
}

func selfLoop(n *node, i int) bool {
	for _, s := range n.succ {
		if *s == i {
			return true
		}
	}
	return false
}

// ---- rank hint: closer / wgDone-ers before the goroutines that wait for them ----------

func (p *pipeline) ranks() []int {
	n := len(p.gs)
	dep := make([][]int, n)
	closers := map[int][]int{}
	doners := map[int][]int{}
	for gi, g := range p.gs {
		for _, nd := range g.nodes {
			if nd.kind == "close" {
				closers[nd.arg] = append(closers[nd.arg], gi)
			}
			if nd.kind == "wgDone" {
				doners[nd.arg] = append(doners[nd.arg], gi)
			}
		}
	}
	for gi, g := range p.gs {
		for _, nd := range g.nodes {
			if nd.kind == "sel" && len(nd.alts) == 1 && nd.alts[0].kind == "recv" {
				dep[gi] = append(dep[gi], closers[nd.alts[0].ch]...)
			}
			if nd.kind == "wgWait" {
				dep[gi] = append(dep[gi], doners[nd.arg]...)
			}
		}
	}
	rank := make([]int, n)
	state := make([]int, n)
	var visit func(i int) int
	visit = func(i int) int {
		if state[i] == 2 {
			return rank[i]
		}
		if state[i] == 1 {
			return 0 // cycle: the Lean check will refuse it
		}
		state[i] = 1
		r := 0
		for _, d := range dep[i] {
			if d == i {
				continue
			}
			if x := visit(d) + 1; x > r {
				r = x
			}
		}
		rank[i] = r
		state[i] = 2
		return r
	}
	for i := range p.gs {
		visit(i)
	}
	return rank
}

// ---- Lean output -------------------------------------------------------------------------

func leanStr(s string) string {
	return "\"" + strings.NewReplacer("\\", "\\\\", "\"", "\\\"", "\n", " ", "\t", " ").Replace(s) + "\""
}

func (a *alt) lean() string {
	switch a.kind {
	case "recv":
		return fmt.Sprintf(".recv %d %d %d", a.ch, *a.n1, *a.n2)
	case "send":
		return fmt.Sprintf(".send %d %d", a.ch, *a.n1)
	case "ctx":
		return fmt.Sprintf(".ctx %d %d", a.k, *a.n1)
	case "tick":
		return fmt.Sprintf(".tick %d", *a.n1)
	}
	return fmt.Sprintf(".dflt %d", *a.n1)
}

func (n *node) lean() string {
	switch n.kind {
	case "sel":
		var s []string
		for _, a := range n.alts {
			s = append(s, a.lean())
		}
		return ".sel [" + strings.Join(s, ", ") + "]"
	case "branch":
		var s []string
		for _, x := range n.succ {
			s = append(s, fmt.Sprint(*x))
		}
		return ".branch [" + strings.Join(s, ", ") + "]"
	case "exit":
		return ".exit"
	}
	return fmt.Sprintf(".%s %d %d", n.kind, n.arg, *n.succ[0])
}

func leanIdent(s string) string {
	r := strings.NewReplacer(".", "_", "-", "_", "/", "_", "#", "_")
	return r.Replace(s)
}

func (p *pipeline) lean() string {
	var b strings.Builder
	fmt.Fprintf(&b, "def %s : Pipeline where\n", leanIdent(p.name))
	fmt.Fprintf(&b, "  name := %s\n  nctx := %d\n", leanStr(p.name), p.nctx)
	b.WriteString("  chans := [")
	for i, c := range p.chans {
		if i > 0 {
			b.WriteString(",")
		}
		fmt.Fprintf(&b, "\n    ⟨%s, %d, %v⟩", leanStr(c.name), c.cap, c.env)
	}
	b.WriteString("]\n  wgs := [")
	for i, w := range p.wgs {
		if i > 0 {
			b.WriteString(", ")
		}
		fmt.Fprintf(&b, "⟨%s, %d⟩", leanStr(w.name), w.init)
	}
	b.WriteString("]\n  gs := [")
	for i, g := range p.gs {
		if i > 0 {
			b.WriteString(",")
		}
		fmt.Fprintf(&b, "\n    { name := %s, static := %v, daemon := %v,\n      nodes := [", leanStr(g.name), g.static, g.daemon)
		for j, n := range g.nodes {
			if j > 0 {
				b.WriteString(",")
			}
			fmt.Fprintf(&b, "\n        /- %d -/ %s", j, n.lean())
		}
		b.WriteString("],\n      sites := [")
		for j, n := range g.nodes {
			if j > 0 {
				b.WriteString(", ")
			}
			b.WriteString(leanStr(n.site))
		}
		b.WriteString("],\n      conds := [")
		for j, n := range g.nodes {
			if j > 0 {
				b.WriteString(", ")
			}
			b.WriteString("[")
			if n.kind == "branch" {
				for k := range n.succ {
					if k > 0 {
						b.WriteString(", ")
					}
					l := ""
					if k < len(n.lab) {
						l = n.lab[k]
					}
					// "text:i;text:j" → [(text, i), (text, j)]
					b.WriteString("[")
					first := true
					for _, d := range strings.Split(l, ";") {
						i := strings.LastIndex(d, ":")
						if i < 0 {
							continue
						}
						if !first {
							b.WriteString(", ")
						}
						first = false
						fmt.Fprintf(&b, "(%s, %s)", leanStr(d[:i]), d[i+1:])
					}
					b.WriteString("]")
				}
			}
			b.WriteString("]")
		}
		b.WriteString("] }")
	}
	b.WriteString("]\n  rank := [")
	for i, r := range p.ranks() {
		if i > 0 {
			b.WriteString(", ")
		}
		fmt.Fprint(&b, r)
	}
	b.WriteString("]\n")
	return b.String()
}

func sortedKeys(m map[string]bool) []string {
	var ks []string
	for k := range m {
		ks = append(ks, k)
	}
	sort.Strings(ks)
	return ks
}
